/-
C05 — the multi-round workflow partitions the global index space, with exact summaries.

A run `multiround pol c files sched fs0 = .ok fs` (`= .ok` already excludes every failing run)
ends with a cluster file whose member lists contain every global index `0 .. N-1` exactly
once (`N` = total number of rows, numbered in input-file order), whatever the refinement mode,
the number of midsection rounds, the bin size and the schedule; the saved centroid list is
aligned with the cluster list and is the majority-vote centroid of each cluster's members.

Rounds communicate only through files found again by two sorted directory listings; that
these pair every buffer file with its own index file is `C05_pairing` (an ordering fact about
the rendered names) and `C05_prevPairs`.

No assumption is made on the initial directory `fs0` (any association list, sorted or not,
with or without leftovers of earlier runs): the invariant the proof needs (`FS.WF`: round files
are listed once and in increasing order) holds after the initial purge and is preserved by
every write.
-/
import BBProofs.Multiround
import BBProofs.RefPolicy
import BBProofs.GenEq6
import BBProofs.GenEq12

namespace BB.MR
open BB

/-! ### names -/

/-- `str(i).zfill(z)` has `z` characters when `i` has at most `z` digits -/
theorem C05_zfill_length (z i : Nat) (hz : 0 < z) (h : i < 10 ^ z) : (zfill z i).length = z :=
  zfill_length z i hz h

/-- lexicographic order of zero-filled labels is the numeric order -/
theorem C05_zfill_lt (i j z : Nat) (h : i < j) (hj : j < 10 ^ z) : zfill z i < zfill z j :=
  zfill_lt i j z h hj

theorem C05_zfill_inj (z i j : Nat) (h : zfill z i = zfill z j) : i = j := zfill_inj h

/-- the labels of the tasks of a round: as many digits as the number of tasks has -/
theorem C05_label_length (n i : Nat) (h : i < n) : (zfill (toString n).length i).length = (toString n).length :=
  zfill_length _ i (repr_length_pos n) (lt_trans h (lt_pow_repr_length n))

/-- **pairing**: for (label, dtype) pairs whose labels have the same length, sorting the rendered
buffer names and sorting the rendered index names enumerate the pairs in the same order -/
theorem C05_pairing (r : Nat) (ps : List (String × W)) (hlen : ∀ p ∈ ps, ∀ q ∈ ps, p.1.length = q.1.length) :
    ∃ qs : List (String × W), qs.Perm ps ∧
      (ps.map (fun p => bufName r p.1 p.2)).mergeSort (· ≤ ·) = qs.map (fun p => bufName r p.1 p.2) ∧
      (ps.map (fun p => idxName r p.1 p.2)).mergeSort (· ≤ ·) = qs.map (fun p => idxName r p.1 p.2) := by
  obtain ⟨qs, hp, h1, h2⟩ := pairing r (ps.map (fun p => (⟨p.1, p.2, []⟩ : Entry)))
    (by
      intro e he e' he'
      obtain ⟨p, hp, rfl⟩ := List.mem_map.mp he
      obtain ⟨q, hq, rfl⟩ := List.mem_map.mp he'
      exact hlen p hp q hq)
  refine ⟨qs.map Entry.key, ?_, ?_, ?_⟩
  · have := hp.map Entry.key
    rw [List.map_map] at this
    have e : (Entry.key ∘ fun p : String × W => (⟨p.1, p.2, []⟩ : Entry)) = id := by funext p; rfl
    rwa [e, List.map_id] at this
  · rw [List.map_map] at h1
    rw [List.map_map]
    exact h1
  · rw [List.map_map] at h2
    rw [List.map_map]
    exact h2

/-- hence zipping the two sorted listings pairs `bufName r L w` with `idxName r L w` -/
theorem C05_pairing_zip (r : Nat) (ps : List (String × W)) (hlen : ∀ p ∈ ps, ∀ q ∈ ps, p.1.length = q.1.length) :
    ∀ x ∈ ((ps.map (fun p => bufName r p.1 p.2)).mergeSort (· ≤ ·)).zip
            ((ps.map (fun p => idxName r p.1 p.2)).mergeSort (· ≤ ·)),
      ∃ p ∈ ps, x = (bufName r p.1 p.2, idxName r p.1 p.2) := by
  obtain ⟨qs, hp, h1, h2⟩ := C05_pairing r ps hlen
  rw [h1, h2, List.zip_map']
  intro x hx
  obtain ⟨p, hpq, rfl⟩ := List.mem_map.mp hx
  exact ⟨p, hp.mem_iff.mp hpq, rfl⟩

/-- the directory after round `r` (`DirInv`: exactly the groups `es` saved by the tasks of round
`r` are there as round-`r` files): the next round's file pairs are exactly those groups, every
buffer file with its own index file -/
theorem C05_prevPairs (r : Nat) (fs : FS) (es : List Entry) (h : DirInv r fs es) :
    ∃ qs : List Entry, qs.Perm es ∧
      prevPairs fs (r + 1) = qs.map (fun e => (bufName r e.L e.w, idxName r e.L e.w)) :=
  prevPairs_of_dirInv h

/-! ### the result -/

variable (pol : BB.Cfg → Policy) (hpol : ∀ cfg, (pol cfg).Valid)
include hpol

/-- **C05 (partition)**: the final clusters partition the global index space `0 .. N-1` -/
theorem C05_partition (c : Cfg) (hbf : 2 ≤ c.bf) (files : List (List Row)) (sched : Nat → List Nat → List Nat)
    (fs0 fs : FS) (h : multiround pol c files sched fs0 = .ok fs) :
    ∃ cl : List (List Nat), fs.read "clusters.pkl" = some (.clusters cl) ∧
      cl.flatten.Perm (List.range (files.map List.length).sum) := by
  obtain ⟨cl, h1, _, h3, _⟩ := multiround_result pol hpol (dataOf files) (fun _ => True) (qok_true _) c
    (by omega) files rfl sched fs0 fs h
  refine ⟨cl.map (·.ids), h1, ?_⟩
  apply Multiset.coe_eq_coe.mp
  rw [flatten_ids_coe, h3]

/-- **C05 (centroids)**: the saved centroid list is aligned with the cluster list, and each
centroid is the one determined by the fingerprints of the cluster's members
(`D i = files.flatten[i]`): threshold of the column sums at half the member count -/
theorem C05_centroids (c : Cfg) (hbf : 2 ≤ c.bf) (files : List (List Row)) (sched : Nat → List Nat → List Nat)
    (fs0 fs : FS) (h : multiround pol c files sched fs0 = .ok fs) (hc : c.saveCentroids = true) :
    ∃ cl : List (List Nat), fs.read "clusters.pkl" = some (.clusters cl) ∧
      fs.read "cluster-centroids-packed.pkl" = some (.centroids
        (cl.map (fun ids => centroidFromSum (colSum (ids.map (dataOf files))) ids.length))) := by
  obtain ⟨cl, h1, h2, _, h4⟩ := multiround_result pol hpol (dataOf files) (Exact (dataOf files)) (qok_exact _) c
    (by omega) files rfl sched fs0 fs h
  refine ⟨cl.map (·.ids), h1, ?_⟩
  rw [h2 hc, List.map_map]
  congr 2
  apply List.map_congr_left
  intro u hu
  have hx := h4 u hu
  simp only [Function.comp]
  rw [hx.cent_eq, hx.ls_eq, hx.n_eq]

/-- all of it at once: the sub-clusters behind both final files are exact for their members -/
theorem C05_exact (c : Cfg) (hbf : 2 ≤ c.bf) (files : List (List Row)) (sched : Nat → List Nat → List Nat)
    (fs0 fs : FS) (h : multiround pol c files sched fs0 = .ok fs) :
    ∃ cl : List Clu, fs.read "clusters.pkl" = some (.clusters (cl.map (·.ids))) ∧
      (c.saveCentroids = true → fs.read "cluster-centroids-packed.pkl" = some (.centroids (cl.map (·.cent)))) ∧
      (cl.map (·.ids)).flatten.Perm (List.range (files.map List.length).sum) ∧
      ∀ u ∈ cl, Exact (dataOf files) u := by
  obtain ⟨cl, h1, h2, h3, h4⟩ := multiround_result pol hpol (dataOf files) (Exact (dataOf files)) (qok_exact _) c
    (by omega) files rfl sched fs0 fs h
  refine ⟨cl, h1, h2, ?_, h4⟩
  apply Multiset.coe_eq_coe.mp
  rw [flatten_ids_coe, h3]

/-- **C05 (round invariant)**, initial round: after round 1 the directory holds exactly the groups
`es` saved by the tasks (`DirInv`), their dtype keys are right, they are exact for their members
and their labels are `0 .. N-1` (`EsOK`) -/
theorem C05_round1 (c : Cfg) (hbf : 2 ≤ c.bf) (files : List (List Row)) (fs fs' : FS) (hwf : fs.WF)
    (hno : NoRoundFrom 1 fs) (h : execRound fs (initTasks pol c files) = .ok fs') :
    ∃ es, DirInv 1 fs' es ∧ EsOK (Exact (dataOf files)) (files.map List.length).sum es :=
  round1_step pol hpol (dataOf files) _ (qok_exact _) c (by omega) files rfl fs fs' hwf hno h

/-- **C05 (round invariant)**, midsection rounds: the invariant of round `r` is handed on to round
`r + 1`, for every bin size and with or without splitting the largest cluster -/
theorem C05_round_step (c : Cfg) (hbf : 2 ≤ c.bf) (files : List (List Row)) (N r : Nat) (fs fs' : FS)
    (es : List Entry) (hdir : DirInv r fs es) (hes : EsOK (Exact (dataOf files)) N es)
    (h : execRound fs (midTasks pol c files.flatten (r + 1) fs) = .ok fs') :
    ∃ es', DirInv (r + 1) fs' es' ∧ EsOK (Exact (dataOf files)) N es' :=
  mid_step pol hpol (dataOf files) _ (qok_exact _) c (by omega) files.flatten
    (fun id r hr => dataOf_get files id r hr) N r fs fs' es hdir hes h

/-- **C05 (handover)**: what the final round reads.  The directory before the final round holds
exactly the groups `es` of the last intermediate round `R = 1 + nMidRounds`: every buffer file
`round-R-bufs.label-L-w.npy` lists the summaries `(linear_sum, n)` of a list of sub-clusters and
the index file with the same label and dtype lists the member lists of the same sub-clusters in
the same order; each summary is exact for its member list, and the member lists partition
`0 .. N-1`.  Without `cleanup` these files are still there at the end of the run. -/
theorem C05_handover (c : Cfg) (hbf : 2 ≤ c.bf) (files : List (List Row)) (sched : Nat → List Nat → List Nat)
    (fs0 fs : FS) (h : multiround pol c files sched fs0 = .ok fs) (hc : c.cleanup = false) :
    ∃ es : List Entry,
      (∀ e ∈ es,
        fs.read (bufName (1 + c.nMidRounds) e.L e.w) = some (.bufs e.w (e.cs.map (fun u => (u.ls, u.n)))) ∧
        fs.read (idxName (1 + c.nMidRounds) e.L e.w) = some (.idxs (e.cs.map (·.ids))) ∧
        ∀ u ∈ e.cs, Exact (dataOf files) u ∧ u.w = e.w) ∧
      (es.flatMap (fun e => e.cs.map (·.ids))).flatten.Perm (List.range (files.map List.length).sum) ∧
      (∀ n, fs.read n ≠ none → matchB (1 + c.nMidRounds) n = true →
        ∃ e ∈ es, n = bufName (1 + c.nMidRounds) e.L e.w) := by
  obtain ⟨fs2, es, hdir, hes, hrd⟩ := multiround_handover pol hpol (dataOf files) (Exact (dataOf files)) (qok_exact _) c
    (by omega) files rfl sched fs0 fs h
  refine ⟨es, ?_, ?_, ?_⟩
  · intro e he
    refine ⟨?_, ?_, fun u hu => ⟨hes.q e he u hu, hes.keyed e he u hu⟩⟩
    · rw [hrd hc _ (isRoundFile_bufName _ _ _)]; exact hdir.rdB e he
    · rw [hrd hc _ (isRoundFile_idxName _ _ _)]; exact hdir.rdI e he
  · apply Multiset.coe_eq_coe.mp
    rw [← hes.ids, ← flatten_ids_coe, List.map_flatMap]
  · intro n hn hm
    rw [hrd hc n (isRoundFile_of_matchB hm)] at hn
    exact hdir.onlyB n hn hm

omit hpol in
/-- the centroid of `C05_centroids` is the per-bit majority vote of the members (ties set) -/
theorem C05_centroid_is_majority (D : Nat → Row) (ids : List Nat) (h2 : 2 ≤ ids.length) (i : Nat) :
    (centroidFromSum (colSum (ids.map D)) ids.length).getD i false =
      decide (ids.length ≤ 2 * ((ids.map D).filter (fun r => r.getD i false)).length) := by
  have := centroid_majority' (ids.map D) (by simpa using h2) i
  simpa using this

omit hpol in
/-- the global indices are the positions in the concatenation of the input files -/
theorem C05_dataOf (files : List (List Row)) (i : Nat) (hi : i < files.flatten.length) :
    dataOf files i = files.flatten[i] := by
  simp [dataOf, List.getD_eq_getElem?_getD, List.getElem?_eq_getElem hi]

end BB.MR

namespace BB.MR
open BB

/-! ### the code's own decisions -/

theorem C05_partition_ref (X : ExpTab) (c : Cfg) (hbf : 2 ≤ c.bf) (files : List (List Row))
    (sched : Nat → List Nat → List Nat) (fs0 fs : FS)
    (h : multiround (refPolicy X) c files sched fs0 = .ok fs) :
    ∃ cl : List (List Nat), fs.read "clusters.pkl" = some (.clusters cl) ∧
      cl.flatten.Perm (List.range (files.map List.length).sum) :=
  C05_partition (refPolicy X) (refPolicy_valid X) c hbf files sched fs0 fs h

theorem C05_centroids_ref (X : ExpTab) (c : Cfg) (hbf : 2 ≤ c.bf) (files : List (List Row))
    (sched : Nat → List Nat → List Nat) (fs0 fs : FS)
    (h : multiround (refPolicy X) c files sched fs0 = .ok fs) (hc : c.saveCentroids = true) :
    ∃ cl : List (List Nat), fs.read "clusters.pkl" = some (.clusters cl) ∧
      fs.read "cluster-centroids-packed.pkl" = some (.centroids
        (cl.map (fun ids => centroidFromSum (colSum (ids.map (dataOf files))) ids.length))) :=
  C05_centroids (refPolicy X) (refPolicy_valid X) c hbf files sched fs0 fs h hc

/-! Non-vacuity: the side conditions hold for the default-like configuration on an empty directory,
and the pairing lemma applies to the labels of a three-task round. -/
example : 2 ≤ exampleCfg.bf := by decide

example : ∀ p ∈ [(zfill 1 0, W.u8), (zfill 1 1, W.u16), (zfill 1 2, W.u8)],
    ∀ q ∈ [(zfill 1 0, W.u8), (zfill 1 1, W.u16), (zfill 1 2, W.u8)], p.1.length = q.1.length := by
  have h : ∀ i, i < 3 → (zfill 1 i).length = 1 := fun i hi => zfill_length 1 i (by omega) (by omega)
  intro p hp q hq
  simp only [List.mem_cons, List.not_mem_nil, or_false] at hp hq
  rcases hp with rfl | rfl | rfl <;> rcases hq with rfl | rfl | rfl <;> simp [h]


/-! ## The same for the code itself (`_BFSubcluster.__init__`, translated whole from `bitbirch.py` on this run) -/

/-- code: **re-insertion checks the pairing** — building a sub-cluster from a saved buffer (what every tree-merging round
does with the files of the previous round) raises `ValueError` exactly when the member list handed over with the buffer
does not have as many entries as the count stored in the buffer; otherwise the object holds that buffer (dtype included),
the majority-vote centroid of the stored sums and count, and that member list -/
theorem C05_code_reimport (expf : Rat → Rat) (w : W) (ls : List Nat) (n : Nat) (ids : List Nat) (wi : W) (nf : PV)
    (hk : ∀ k ∈ ls, k ≤ n) (hn : n < 2 ^ 53) :
    BBGen._BFSubcluster_init expf BB.PV.pynone (BB.PV.arr wi ids) nf (BB.PV.arr w (ls ++ [n])) (BB.PV.bool true)
      = if ids.length ≠ n
        then [BB.PV.err "ValueError", BB.PV.pynone, BB.PV.pynone, BB.PV.pynone, BB.PV.pynone]
        else BB.PV.pynone :: BB.stateOf (BB.Clu.ofBuffer w ls n ids) BB.PV.pynone := by
  rw [BB.gen_subcluster_init_buffer expf w ls n ids wi nf true hk hn]
  simp

end BB.MR

namespace BB.MR
open BB

/-- code: the global index ranges handed to the first-round tasks (`_get_files_range_tuples` as translated on this run) are
the model's: consecutive, the first at 0, each as long as its file — so they partition `0 … N-1` in input-file order -/
theorem C05_code_file_ranges (expf : Rat → Rat) (files : List (List Row)) (hs : List Nat) (hlen : hs.length = files.length) :
    BBGen._get_files_range_tuples expf (PV.arr .big hs) (PV.arr .big (files.map List.length))
      = ((fileTuples files).zip hs).flatMap
          (fun t => [PV.str t.1.1, PV.int t.2, PV.int t.1.2.2, PV.int ((t.1.2.2 + t.1.2.1.length : Nat) : Int)]) :=
  gen_file_tuples_model expf files hs hlen

end BB.MR
