/-
C06 — the result of the multi-round workflow is independent of scheduling.

The tasks of a round read the directory as it was at the start of the round and write files
whose names contain the task's own label, so their write sets are pairwise disjoint; writes to
different names commute, hence executing the tasks of a round in any order (`sched`) leaves
the same directory behind, and by induction over the rounds the same final files.

Equality "up to the error" is `toOption` equality: both runs fail, or both succeed with the
same directory (a sorted association list, so this is equality of lists).
-/
import BBProofs.Multiround
import BBProofs.RefPolicy
import BBProofs.GenEq12

namespace BB.MR
open BB

/-! ### names -/

/-- buffer-file names determine round, label and dtype — for arbitrary labels (the dtype tags all
have six characters and a decimal round number contains no `-`, so no side condition is needed) -/
theorem C06_names_inj (r r' : Nat) (L L' : String) (w w' : W) :
    (bufName r L w = bufName r' L' w' → r = r' ∧ L = L' ∧ w = w') ∧
    (idxName r L w = idxName r' L' w' → r = r' ∧ L = L' ∧ w = w') ∧
    bufName r L w ≠ idxName r' L' w' :=
  ⟨bufName_inj, idxName_inj, bufName_ne_idxName r r' L L' w w'⟩

/-- round files are never final files -/
theorem C06_names_round (r : Nat) (L : String) (w : W) :
    isRoundFile (bufName r L w) = true ∧ isRoundFile (idxName r L w) = true ∧
    isFinalFile (bufName r L w) = false ∧ isFinalFile (idxName r L w) = false :=
  ⟨isRoundFile_bufName r L w, isRoundFile_idxName r L w,
    isFinalFile_of_isRoundFile (isRoundFile_bufName r L w), isFinalFile_of_isRoundFile (isRoundFile_idxName r L w)⟩

/-- the listing of round `r` finds the files of round `r` and of no other round, buffers and
indices apart -/
theorem C06_glob (r r' : Nat) (L : String) (w : W) :
    (matchB r (bufName r' L w) = true ↔ r = r') ∧ (matchI r (idxName r' L w) = true ↔ r = r') ∧
    matchB r (idxName r' L w) = false ∧ matchI r (bufName r' L w) = false :=
  ⟨matchB_bufName r r' L w, matchI_idxName r r' L w, matchB_idxName r r' L w, matchI_bufName r r' L w⟩

/-! ### disjoint write sets -/

variable (pol : BB.Cfg → Policy)

/-- tasks with different labels write disjoint sets of names -/
theorem C06_disjoint_labels (r : Nat) (L L' : String) (hL : L ≠ L') (g g' : Except Err (List (W × List Clu))) :
    DisjointTasks (g.map (saveGroups r L)) (g'.map (saveGroups r L')) := by
  apply LabelTask.disjoint hL
  · intro ws h
    obtain ⟨gs, _, rfl⟩ := except_map_eq_ok h
    exact saveGroups_names r L gs
  · intro ws h
    obtain ⟨gs, _, rfl⟩ := except_map_eq_ok h
    exact saveGroups_names r L' gs

/-- **C06 (disjointness)**: the tasks of the initial round, and of every midsection round on any
directory, write pairwise disjoint sets of names -/
theorem C06_disjoint (c : Cfg) (files : List (List Row)) (allRows : List Row) (r : Nat) (fs : FS) :
    (initTasks pol c files).Pairwise DisjointTasks ∧ (midTasks pol c allRows r fs).Pairwise DisjointTasks :=
  ⟨initTasks_disjoint pol c files, midTasks_disjoint pol c allRows r fs⟩

/-! ### commutation -/

/-- writes to different names commute -/
theorem C06_write_comm (fs : FS) (n m : String) (c d : Content) (h : n ≠ m) :
    (fs.write n c).write m d = (fs.write m d).write n c := write_comm fs n m c d h

/-- **C06 (commutation)**: executing tasks with pairwise disjoint write sets in any order gives the
same outcome: both executions fail, or both succeed with the same directory -/
theorem C06_commute (fs : FS) (tasks tasks' : List (Except Err Writes)) (hperm : tasks'.Perm tasks)
    (hd : tasks.Pairwise DisjointTasks) :
    (execRound fs tasks').toOption = (execRound fs tasks).toOption :=
  execRound_perm hperm hd fs

/-- the successful case as an equation -/
theorem C06_commute_ok (fs fs' : FS) (tasks tasks' : List (Except Err Writes)) (hperm : tasks'.Perm tasks)
    (hd : tasks.Pairwise DisjointTasks) (h : execRound fs tasks = .ok fs') : execRound fs tasks' = .ok fs' := by
  have := C06_commute fs tasks tasks' hperm hd
  rw [h] at this
  cases h2 : execRound fs tasks' with
  | error e => rw [h2] at this; simp [Except.toOption] at this
  | ok x => rw [h2] at this; simp [Except.toOption] at this; rw [this]

/-- failure is order-independent as well -/
theorem C06_commute_isOk (fs : FS) (tasks tasks' : List (Except Err Writes)) (hperm : tasks'.Perm tasks)
    (hd : tasks.Pairwise DisjointTasks) : (execRound fs tasks').isOk = (execRound fs tasks).isOk := by
  have := C06_commute fs tasks tasks' hperm hd
  cases h1 : execRound fs tasks' <;> cases h2 : execRound fs tasks <;> rw [h1, h2] at this <;>
    simp [Except.toOption, Except.isOk, Except.toBool] at this ⊢

/-- the model executes every task of a round exactly once, whatever `sched` returns -/
theorem C06_order_perm (sched : Nat → List Nat → List Nat) (r n : Nat) :
    (orderOf sched r n).Perm (List.range n) := orderOf_perm sched r n

/-- sorting a directory listing makes its order irrelevant (`sorted ∘ shuffle = sorted`) -/
theorem C06_sorted (l l' : List String) (h : l.Perm l') : l.mergeSort (· ≤ ·) = l'.mergeSort (· ≤ ·) :=
  mergeSort_names_perm h

/-- the file pairs a round reads depend only on which round files exist, not on anything else in
the directory -/
theorem C06_prevPairs (a b : FS) (ha : a.WF) (hb : b.WF)
    (h : ∀ n, isRoundFile n = true → a.read n = b.read n) (r : Nat) : prevPairs a r = prevPairs b r :=
  prevPairs_congr a b ha hb h r

/-! ### the whole workflow -/

/-- **C06**: two schedules give the same outcome (both fail, or both succeed with the same
directory — in particular the same `clusters.pkl` and `cluster-centroids-packed.pkl`) -/
theorem C06_sched (c : Cfg) (files : List (List Row)) (sched sched' : Nat → List Nat → List Nat) (fs0 : FS) :
    (multiround pol c files sched fs0).toOption = (multiround pol c files sched' fs0).toOption :=
  multiround_sched pol c files sched sched' fs0

theorem C06_sched_ok (c : Cfg) (files : List (List Row)) (sched sched' : Nat → List Nat → List Nat) (fs0 fs : FS)
    (h : multiround pol c files sched fs0 = .ok fs) : multiround pol c files sched' fs0 = .ok fs := by
  have := C06_sched pol c files sched sched' fs0
  rw [h] at this
  cases h2 : multiround pol c files sched' fs0 with
  | error e => rw [h2] at this; simp [Except.toOption] at this
  | ok x => rw [h2] at this; simp [Except.toOption] at this; rw [this]

/-- for the code's own decisions -/
theorem C06_sched_ref (X : ExpTab) (c : Cfg) (files : List (List Row)) (sched sched' : Nat → List Nat → List Nat)
    (fs0 fs : FS) (h : multiround (refPolicy X) c files sched fs0 = .ok fs) :
    multiround (refPolicy X) c files sched' fs0 = .ok fs :=
  C06_sched_ok (refPolicy X) c files sched sched' fs0 fs h

/-! Non-vacuity: two tasks with disjoint write sets, and a failing one, in both orders. -/
example : [Except.ok [("a", Content.other 0), ("c", Content.other 2)], Except.ok [("b", Content.other 1)],
    (Except.error Err.value : Except Err Writes)].Pairwise DisjointTasks := by
  simp only [DisjointTasks, List.pairwise_cons, List.mem_cons, List.not_mem_nil, or_false, forall_eq_or_imp,
    forall_eq, Except.ok.injEq, reduceCtorEq, false_implies, implies_true, and_true, List.Pairwise.nil]
  intro wa wb ha hb x hx y hy
  subst ha hb
  simp only [List.mem_cons, List.not_mem_nil, or_false] at hx hy
  subst hy
  rcases hx with rfl | rfl <;> decide

example : execRound [] [Except.ok [("b", Content.other 1)], Except.ok [("a", Content.other 0)]]
    = execRound [] [Except.ok [("a", Content.other 0)], Except.ok [("b", Content.other 1)]] := by
  rw [execRound_cons_ok, execRound_cons_ok, execRound_cons_ok, execRound_cons_ok]
  simp [writeAll, FS.write]

end BB.MR

namespace BB.MR
open BB

/-! ### the code: `multiround._get_files_range_tuples` as translated from `/repo` on this run -/

/-- code: the task tuples of the first round are the model's `fileTuples`: the label of a file is its POSITION in the input
list, zero-padded to the width of the number of files (never a worker id, a completion order or a clock), and its index
range starts where the previous file's range ends.  File `i` is the handle `hs[i]`; its number of rows is an input. -/
theorem C06_code_task_tuples (expf : Rat → Rat) (files : List (List Row)) (hs : List Nat) (hlen : hs.length = files.length) :
    BBGen._get_files_range_tuples expf (PV.arr .big hs) (PV.arr .big (files.map List.length))
      = ((fileTuples files).zip hs).flatMap
          (fun t => [PV.str t.1.1, PV.int t.2, PV.int t.1.2.2, PV.int ((t.1.2.2 + t.1.2.1.length : Nat) : Int)]) :=
  gen_file_tuples_model expf files hs hlen

/-- code: the same list spelled out — label `zfill z i`, start = the sum of the earlier files' rows -/
theorem C06_code_labels (expf : Rat → Rat) (hs cs : List Nat) (hlen : hs.length = cs.length) :
    BBGen._get_files_range_tuples expf (PV.arr .big hs) (PV.arr .big cs)
      = tuplesFrom (toString hs.length).length 0 0 (hs.zip cs) :=
  gen_file_tuples expf hs cs hlen

/-- premises satisfiable: three files of 2, 0 and 5 rows -/
example : BBGen._get_files_range_tuples (fun x => x) (PV.arr .big [7, 8, 9]) (PV.arr .big [2, 0, 5])
    = [PV.str "0", PV.int 7, PV.int 0, PV.int 2, PV.str "1", PV.int 8, PV.int 2, PV.int 2, PV.str "2", PV.int 9, PV.int 2, PV.int 7] := by
  decide +kernel

end BB.MR
