/-
C15 — the command line runs the same workflow as the API, on a clean output directory.

`bb run` is (1) `_validate_output_dir`, (2) the API history `BitBirch(...)`, one `fit` per input
file in sorted-name order, optionally `set_merge` + `refine_rounds` × `refine_inplace(all files)` +
`recluster_rounds` × `recluster_inplace()`, `delete_internal_nodes()`, (3) a fixed set of output
files.  `cliRun` IS that history (`C15_equals_api`, `C15_plan_shape`); on the documented option
domain it completes (`C15_total_run`); the labels in `clusters.pkl` are the positions in the
concatenation of the input files, every reported summary / centroid is exact for its members and
the clusters partition `0 .. N-1` (`C15_numbering`, `C15_centroids`); a non-empty output directory
is refused unless `--overwrite`, in which case the run starts from the empty directory
(`C15_outdir`, `C15_outdir_run`).  `bb multiround` is validation followed by
`run_multiround_bitbirch` with the options mapped one-to-one (`C15_multi_equals_api`), so the
multi-round theorems apply to it (`C15_multi_partition`).

Everything is proved for every family of policies `pol` with `∀ cfg, (pol cfg).Valid` (any routing,
split and merge decisions) and instantiated with the code's own decisions `refPolicy X`.
-/
import BBProofs.Cli
import BBProofs.CliMulti
import BBProofs.RefPolicy
import BBProps.C05
import BBProofs.GenEq5

namespace BB.Cli
open BB

/-! ### the command is the API history -/

/-- **C15 (same workflow)**: `bb run` is the constructor call followed by the plan, stopping at the
first call that raises -/
theorem C15_equals_api (pol : Cfg → Policy) (o : RunOpts) (files : List (List Row))
    (perms : List (Option (List Nat))) :
    cliRun pol o files perms =
      match construct o.thr o.bf (some (.name o.crit)) (some o.tol) with
      | .error x => .error x
      | .ok e => runStrict pol e (runPlan o files perms) := rfl

/-- a run that completes reports from the state of the plain API history (`runWith`, resp. `run`
for the code's own decisions) of the freshly constructed estimator -/
theorem C15_equals_api_state (pol : Cfg → Policy) (o : RunOpts) (files : List (List Row))
    (perms : List (Option (List Nat))) (e : Est) (h : cliRun pol o files perms = .ok e) :
    ∃ e0, construct o.thr o.bf (some (.name o.crit)) (some o.tol) = .ok e0 ∧
      e = runWith pol e0 (runPlan o files perms) := by
  rw [C15_equals_api] at h
  split at h
  · simp at h
  · rename_i e0 h0
    exact ⟨e0, h0, (runStrict_runWith pol _ _ _ h).symm⟩

theorem C15_equals_api_ref (X : ExpTab) (o : RunOpts) (files : List (List Row))
    (perms : List (Option (List Nat))) (e : Est) (h : cliRun (refPolicy X) o files perms = .ok e) :
    ∃ e0, construct o.thr o.bf (some (.name o.crit)) (some o.tol) = .ok e0 ∧
      e = run X e0 (runPlan o files perms) :=
  C15_equals_api_state (refPolicy X) o files perms e h

/-- **C15 (plan)**: the calls, in order, with the normalised `(refine_rounds, refine_num)` -/
theorem C15_plan_shape (o : RunOpts) (files : List (List Row)) (perms : List (Option (List Nat))) :
    runPlan o files perms =
      files.map (fun f => Op.fit f none) ++
      (if (normRounds o).1 ≠ 0 ∨ o.reclusterRounds ≠ 0 then
        [Op.setMerge (some (.name o.refineCrit)) (some o.tol) (some (fadd o.thr o.chg)) none] ++
        List.replicate (normRounds o).1 (Op.refine ((normRounds o).2 : Int) files.flatten 0 true) ++
        (List.range o.reclusterRounds).map (fun j => Op.recluster 1 0 [perms.getD j none] false)
       else []) ++
      [Op.delInternal] := rfl

/-- the normalisation: rounds default to "one iff something is to be refined", and a refinement round
always splits at least one cluster -/
theorem C15_normRounds (o : RunOpts) :
    (o.refineRounds = none → (normRounds o).1 = if 0 < o.refineNum then 1 else 0) ∧
    (∀ r, o.refineRounds = some r → (normRounds o).1 = r) ∧
    (0 < (normRounds o).1 → 1 ≤ (normRounds o).2) ∧
    (0 < o.refineNum → (normRounds o).2 = o.refineNum) ∧
    ((normRounds o).1 = 0 → (normRounds o).2 = o.refineNum) := by
  unfold normRounds
  refine ⟨fun h => by simp [h], fun r h => by simp [h], ?_, ?_, ?_⟩
  · intro h
    simp only at h ⊢
    by_cases h0 : o.refineNum = 0
    · cases hr : o.refineRounds with
      | none => simp [hr, h0] at h
      | some r =>
        have hr0 : 0 < r := by simpa [hr] using h
        simp [h0, hr0]
    · simp [h0]; omega
  · intro h
    have : o.refineNum ≠ 0 := by omega
    simp [this]
  · intro h
    simp only at h
    simp [h]

/-- without any refinement option the command is: fit every file, release the internal nodes -/
theorem C15_plan_default (o : RunOpts) (files : List (List Row)) (perms : List (Option (List Nat)))
    (h1 : o.refineNum = 0) (h2 : o.refineRounds = none) (h3 : o.reclusterRounds = 0) :
    runPlan o files perms = files.map (fun f => Op.fit f none) ++ [Op.delInternal] := by
  simp [runPlan, refineSection, normRounds, h1, h2, h3, fitOps]

/-! ### the command completes on its whole documented domain -/

section
variable (pol : Cfg → Policy) (hpol : ∀ cfg, (pol cfg).Valid)
include hpol

/-- **C15 (totality)**: for every option combination of the documented domain (`RunDom`: both
criterion names known, branching factor ≥ 2, at least one input file, no empty file, all
fingerprints of one length) and every supplied shuffle whatsoever, `bb run` completes: the
constructor accepts every name with every tolerance, so does `set_merge`; no fit fails; every
refinement round finds the rows of the clusters it explodes (their labels are `< N`); the
re-clustering rounds succeed; the internal nodes can be released -/
theorem C15_total_run (o : RunOpts) (files : List (List Row)) (perms : List (Option (List Nat))) (F : Nat)
    (hd : RunDom o files F) : ∃ e, cliRun pol o files perms = .ok e := by
  obtain ⟨_, e, _, h, _⟩ := cliRun_spec pol hpol o files perms F hd
  exact ⟨e, h⟩

/-- the history of a run is consistent with the labelling "label `i` = row `i` of the concatenation
of the input files" (`RunD`, the hypothesis of `run_wfn`; it is C02's `Consistent`): the `k`-th fit
starts at label `Σ_{j<k} len_j`, every refinement reads the concatenation with `initial_mol = 0` -/
theorem C15_consistent (o : RunOpts) (files : List (List Row)) (perms : List (Option (List Nat))) (F : Nat)
    (hd : RunDom o files F) :
    ∃ e0, construct o.thr o.bf (some (.name o.crit)) (some o.tol) = .ok e0 ∧
      RunD pol F (MR.dataOf files) e0 (runPlan o files perms) := by
  obtain ⟨e0, _, h0, _, _, hr, _⟩ := cliRun_spec pol hpol o files perms F hd
  exact ⟨e0, h0, hr⟩

/-- **C15 (numbering)**: in the state `bb run` reports from, `N = Σ file lengths` fingerprints are
fitted, every reported cluster (in the sorted order of `clusters.pkl` and in leaf order) is exact for
the labelling `D i = (concatenation of the files)[i]` — its count, column sums, centroid and counter
width are those of exactly the rows its labels point to — and the reported clusters partition
`0 .. N-1` -/
theorem C15_numbering (o : RunOpts) (files : List (List Row)) (perms : List (Option (List Nat))) (F : Nat)
    (hd : RunDom o files F) (e : Est) (h : cliRun pol o files perms = .ok e) :
    e.numFitted = (files.map List.length).sum ∧
    (∀ c ∈ e.st.sortedClus, Exact (MR.dataOf files) c ∧ 1 ≤ c.n) ∧
    (∀ c ∈ e.st.leafClus, Exact (MR.dataOf files) c ∧ 1 ≤ c.n) ∧
    (runOutputs e o).2.1 = e.st.sortedClus.map (·.ids) ∧
    ∀ sort, (e.clusters sort).flatten.Perm (List.range (files.map List.length).sum) := by
  obtain ⟨_, e', _, h', _, _, hinv, hn⟩ := cliRun_spec pol hpol o files perms F hd
  rw [h] at h'
  cases h'
  have hN : e.numFitted = (files.map List.length).sum := by rw [hn, List.length_flatten]
  refine ⟨hN, ?_, ?_, rfl, ?_⟩
  · intro c hc
    exact hinv.q c ((mem_of_coe_eq (sortedClus_coe _ hinv.ok) c).mp hc)
  · intro c hc
    exact hinv.q c ((mem_of_coe_eq (TreeSt.leafClus_coe _ hinv.ok) c).mp hc)
  · intro sort
    rw [← hN]
    exact clusters_perm F _ e hinv sort

/-- the saved centroid list is aligned with the cluster list, and each centroid is the one determined
by the rows of the cluster's members: threshold of the column sums at half the member count -/
theorem C15_centroids (o : RunOpts) (files : List (List Row)) (perms : List (Option (List Nat))) (F : Nat)
    (hd : RunDom o files F) (e : Est) (h : cliRun pol o files perms = .ok e) (hc : o.saveCentroids = true) :
    (runOutputs e o).2.2 = ((runOutputs e o).2.1).map
      (fun ids => centroidFromSum (colSum (ids.map (MR.dataOf files))) ids.length) := by
  obtain ⟨_, hs, _, _, _⟩ := C15_numbering pol hpol o files perms F hd e h
  simp only [runOutputs, hc, ↓reduceIte, Est.clusters, TreeSt.sortedClus, List.map_map]
  apply List.map_congr_left
  intro u hu
  have hx := (hs u hu).1
  simp only [Function.comp]
  rw [hx.cent_eq, hx.ls_eq, hx.n_eq]

end

/-- the labels are the positions in the concatenation of the input files, in the order given
(`bb run` sorts the `*.npy` files by name) -/
theorem C15_label_is_row (files : List (List Row)) (i : Nat) (hi : i < files.flatten.length) :
    MR.dataOf files i = files.flatten[i] := MR.C05_dataOf files i hi

/-- the labels of the `k`-th file start after those of the files before it -/
theorem C15_label_offset (pre : List (List Row)) (f : List Row) (rest : List (List Row)) (i : Nat)
    (hi : i < f.length) : MR.dataOf (pre ++ f :: rest) ((pre.map List.length).sum + i) = f[i] := by
  rw [← List.length_flatten]
  exact dataOf_at pre f rest i hi

/-- for the code's own decisions -/
theorem C15_total_run_ref (X : ExpTab) (o : RunOpts) (files : List (List Row)) (perms : List (Option (List Nat)))
    (F : Nat) (hd : RunDom o files F) : ∃ e, cliRun (refPolicy X) o files perms = .ok e :=
  C15_total_run (refPolicy X) (refPolicy_valid X) o files perms F hd

theorem C15_numbering_ref (X : ExpTab) (o : RunOpts) (files : List (List Row)) (perms : List (Option (List Nat)))
    (F : Nat) (hd : RunDom o files F) (e : Est) (h : cliRun (refPolicy X) o files perms = .ok e) :
    e.numFitted = (files.map List.length).sum ∧
    (∀ c ∈ e.st.sortedClus, Exact (MR.dataOf files) c ∧ 1 ≤ c.n) ∧
    (∀ c ∈ e.st.leafClus, Exact (MR.dataOf files) c ∧ 1 ≤ c.n) ∧
    (runOutputs e o).2.1 = e.st.sortedClus.map (·.ids) ∧
    ∀ sort, (e.clusters sort).flatten.Perm (List.range (files.map List.length).sum) :=
  C15_numbering (refPolicy X) (refPolicy_valid X) o files perms F hd e h

/-- outside the domain the command fails where the API fails: an unknown criterion name is refused by
the constructor, before anything is fitted -/
theorem C15_unknown_crit (pol : Cfg → Policy) (o : RunOpts) (files : List (List Row))
    (perms : List (Option (List Nat))) (h : Crit.ofName? o.crit = none) :
    cliRun pol o files perms = .error .value := by
  simp [cliRun, construct, selectMerge, h]

/-! ### the output directory -/

/-- **C15 (clean directory)**: without `--overwrite` the command is refused exactly when the output
directory has entries; with `--overwrite` it is never refused; and whenever validation passes the
run starts from the empty directory -/
theorem C15_outdir (entries : List String) :
    ((∃ x, validateOutputDir entries false = .error x) ↔ entries ≠ []) ∧
    validateOutputDir entries true = .ok [] ∧
    (∀ ow d, validateOutputDir entries ow = .ok d → d = []) ∧
    (∀ ow x, validateOutputDir entries ow = .error x → x = .value ∧ ow = false ∧ entries ≠ []) := by
  unfold validateOutputDir
  refine ⟨?_, ?_, ?_, ?_⟩
  · cases entries <;> simp
  · cases entries <;> simp
  · intro ow d h
    cases entries <;> cases ow <;> simp at h <;> exact h
  · intro ow x h
    cases entries <;> cases ow <;> simp at h
    exact ⟨h.symm, rfl, by simp⟩

theorem C15_outputNames_nodup (o : RunOpts) : (outputNames o).Nodup := by
  unfold outputNames
  cases o.saveCentroids <;> cases o.saveTree <;> decide

/-- hence after a completed command the directory holds exactly the files of this run, each once:
`clusters.pkl`, the centroid file iff `--save-centroids`, the tree iff `--save-tree`, the
configuration, the timings and the input links — nothing of an earlier run -/
theorem C15_outdir_run (pol : Cfg → Policy) (o : RunOpts) (entries : List String) (files : List (List Row))
    (perms : List (Option (List Nat))) (e : Est) (dir : List String)
    (h : cliRunDir pol o entries files perms = .ok (e, dir)) :
    cliRun pol o files perms = .ok e ∧ dir = (runOutputs e o).1 ∧ dir = outputNames o ∧ dir.Nodup ∧
    (entries ≠ [] → o.overwrite = true) ∧
    ("clusters.pkl" ∈ dir) ∧ ("cluster-centroids-packed.pkl" ∈ dir ↔ o.saveCentroids = true) ∧
    ("bitbirch.pkl" ∈ dir ↔ o.saveTree = true) := by
  unfold cliRunDir at h
  split at h
  · simp at h
  · rename_i d hv
    have hd := (C15_outdir entries).2.2.1 _ _ hv
    subst hd
    split at h
    · simp at h
    · rename_i e' hr
      simp only [List.nil_append, Except.ok.injEq, Prod.mk.injEq] at h
      obtain ⟨rfl, rfl⟩ := h
      refine ⟨hr, rfl, rfl, C15_outputNames_nodup o, ?_, ?_, ?_, ?_⟩
      · intro hne
        cases how : o.overwrite with
        | true => rfl
        | false =>
          rw [how] at hv
          have := (C15_outdir entries).1.mpr hne
          obtain ⟨x, hx⟩ := this
          rw [hx] at hv
          simp at hv
      · simp [runOutputs, outputNames]
      · simp only [runOutputs, outputNames]
        cases o.saveCentroids <;> cases o.saveTree <;> decide
      · simp only [runOutputs, outputNames]
        cases o.saveCentroids <;> cases o.saveTree <;> decide

/-- a refused directory means nothing is run (no estimator state, no file list) -/
theorem C15_outdir_refused (pol : Cfg → Policy) (o : RunOpts) (entries : List String) (files : List (List Row))
    (perms : List (Option (List Nat))) (hne : entries ≠ []) (how : o.overwrite = false) :
    cliRunDir pol o entries files perms = .error .value := by
  cases entries with
  | nil => exact absurd rfl hne
  | cons a l => simp [cliRunDir, validateOutputDir, how]

/-! ### `bb multiround` -/

/-- **C15 (same workflow, multiround)**: the command is validation of the output directory, the two
argument checks, and `run_multiround_bitbirch` with the options mapped one-to-one (no separate final
criterion: it is the midsection one) -/
theorem C15_multi_equals_api (pol : Cfg → Policy) (o : MultiOpts) (files : List (List Row))
    (sched : Nat → List Nat → List Nat) (fs0 : MR.FS) :
    cliMultiround pol o files sched fs0 =
      match validateOutputDir (fs0.map (·.1)) o.overwrite with
      | .error x => .error x
      | .ok names =>
        if multiArgsOk o then MR.multiround pol (toMRCfg o) files sched (dirAfter fs0 names)
        else .error .value := rfl

theorem C15_multi_cfg (o : MultiOpts) :
    (toMRCfg o).bf = o.bf ∧ (toMRCfg o).thr = o.thr ∧ (toMRCfg o).thrChange = o.midChg ∧
    (toMRCfg o).tol = o.tol ∧ (toMRCfg o).initCrit = o.initCrit ∧ (toMRCfg o).midCrit = o.midCrit ∧
    (toMRCfg o).finalCrit = o.midCrit ∧ (toMRCfg o).splitAfterMid = o.splitAfterMid ∧
    (toMRCfg o).binSize = o.binSize ∧ (toMRCfg o).nMidRounds = o.nMidRounds ∧
    (toMRCfg o).saveCentroids = o.saveCentroids ∧ (toMRCfg o).cleanup = o.cleanup ∧
    (∀ m, parseMode o.initialRefine = some m → (toMRCfg o).mode = m) :=
  ⟨rfl, rfl, rfl, rfl, rfl, rfl, rfl, rfl, rfl, rfl, rfl, rfl, fun m h => by simp [toMRCfg, h]⟩

/-- a completed command is a completed API run that started on the EMPTY directory, whatever the
directory held before (and it held something only with `--overwrite`) -/
theorem C15_multi_equals_api_ok (pol : Cfg → Policy) (o : MultiOpts) (files : List (List Row))
    (sched : Nat → List Nat → List Nat) (fs0 fs : MR.FS) (h : cliMultiround pol o files sched fs0 = .ok fs) :
    MR.multiround pol (toMRCfg o) files sched [] = .ok fs ∧ multiArgsOk o = true ∧
    (fs0 ≠ [] → o.overwrite = true) := by
  rw [C15_multi_equals_api] at h
  split at h
  · simp at h
  · rename_i names hv
    have hd := (C15_outdir _).2.2.1 _ _ hv
    subst hd
    have hdir : dirAfter fs0 [] = [] := by simp [dirAfter]
    rw [hdir] at h
    split at h
    · rename_i hok
      refine ⟨h, hok, ?_⟩
      intro hne
      cases how : o.overwrite with
      | true => rfl
      | false =>
        rw [how] at hv
        obtain ⟨x, hx⟩ := (C15_outdir (fs0.map (·.1))).1.mpr (by simpa using hne)
        rw [hx] at hv
        simp at hv
    · simp at h

/-- **C15 (multiround partition)**: for every initial directory content accepted by validation, a
completed `bb multiround` leaves a cluster file whose member lists partition `0 .. N-1` -/
theorem C15_multi_partition (pol : Cfg → Policy) (hpol : ∀ cfg, (pol cfg).Valid) (o : MultiOpts) (hbf : 2 ≤ o.bf)
    (files : List (List Row)) (sched : Nat → List Nat → List Nat) (fs0 fs : MR.FS)
    (h : cliMultiround pol o files sched fs0 = .ok fs) :
    ∃ cl : List (List Nat), fs.read "clusters.pkl" = some (.clusters cl) ∧
      cl.flatten.Perm (List.range (files.map List.length).sum) :=
  MR.C05_partition pol hpol (toMRCfg o) hbf files sched [] fs (C15_multi_equals_api_ok pol o files sched fs0 fs h).1

theorem C15_multi_partition_ref (X : ExpTab) (o : MultiOpts) (hbf : 2 ≤ o.bf)
    (files : List (List Row)) (sched : Nat → List Nat → List Nat) (fs0 fs : MR.FS)
    (h : cliMultiround (refPolicy X) o files sched fs0 = .ok fs) :
    ∃ cl : List (List Nat), fs.read "clusters.pkl" = some (.clusters cl) ∧
      cl.flatten.Perm (List.range (files.map List.length).sum) :=
  C15_multi_partition (refPolicy X) (refPolicy_valid X) o hbf files sched fs0 fs h

/-- **C15 (totality, multiround)**: for every option combination of the documented domain
(`MultiDom`: known criterion names and refinement mode, process counts consistent, branching
factor ≥ 2, at least one input file, no empty file, one fingerprint length), every schedule of the
pools, and every output directory that validation accepts (empty, or anything with `--overwrite`),
`bb multiround` completes: every task of every round succeeds -/
theorem C15_total_multi (pol : Cfg → Policy) (hpol : ∀ cfg, (pol cfg).Valid) (o : MultiOpts)
    (files : List (List Row)) (F : Nat) (hd : MultiDom o files F) (sched : Nat → List Nat → List Nat)
    (fs0 : MR.FS) (hdir : fs0 = [] ∨ o.overwrite = true) :
    ∃ fs, cliMultiround pol o files sched fs0 = .ok fs := by
  rw [C15_multi_equals_api]
  have hv : validateOutputDir (fs0.map (·.1)) o.overwrite = .ok [] := by
    rcases hdir with rfl | how
    · rfl
    · rw [how]; exact (C15_outdir _).2.1
  rw [hv]
  simp only [hd.args, ↓reduceIte]
  exact MR.multiround_total pol hpol (toMRCfg o) files F hd.mr sched _

theorem C15_total_multi_ref (X : ExpTab) (o : MultiOpts) (files : List (List Row)) (F : Nat)
    (hd : MultiDom o files F) (sched : Nat → List Nat → List Nat) (fs0 : MR.FS)
    (hdir : fs0 = [] ∨ o.overwrite = true) :
    ∃ fs, cliMultiround (refPolicy X) o files sched fs0 = .ok fs :=
  C15_total_multi (refPolicy X) (refPolicy_valid X) o files F hd sched fs0 hdir

/-- the argument checks: more midsection processes than initial ones, or an unknown
`--initial-refine`, are refused (`ValueError`) -/
theorem C15_multi_args (pol : Cfg → Policy) (o : MultiOpts) (files : List (List Row))
    (sched : Nat → List Nat → List Nat) (fs0 : MR.FS) (h : multiArgsOk o = false) :
    ∃ x, cliMultiround pol o files sched fs0 = .error x := by
  rw [C15_multi_equals_api]
  split
  · exact ⟨_, rfl⟩
  · simp [h]

/-! ### non-vacuity: a concrete option set inside the domain -/

example : RunDom exampleOpts exampleFiles 3 where
  crit := by decide
  refineCrit := by decide
  bf := by decide
  atLeastOne := by decide
  nonempty := by decide
  width := by decide

example : normRounds exampleOpts = (2, 1) := by decide

example : showPlan (runPlan exampleOpts exampleFiles [some [1, 0], none]) =
    "FIT 0 ; FIT 1 ; FIT 2 ; SETMERGE crit=tolerance-diameter tol=1/20 thr=5854679515581645/9007199254740992 bf=- ; REFINE n=1 srt=1 ; REFINE n=1 srt=1 ; RECLUSTER 0 ; RECLUSTER 1 ; DELINT" := by
  decide +kernel

example (X : ExpTab) : ∃ e, cliRun (refPolicy X) exampleOpts exampleFiles [some [1, 0], none] = .ok e ∧
    e.numFitted = 5 :=
  have hd : RunDom exampleOpts exampleFiles 3 :=
    ⟨by decide, by decide, by decide, by decide, by decide, by decide⟩
  let ⟨e, h⟩ := C15_total_run_ref X exampleOpts exampleFiles _ 3 hd
  ⟨e, h, (C15_numbering_ref X exampleOpts exampleFiles _ 3 hd e h).1⟩

example : MultiDom exampleMulti exampleFiles 3 where
  initCrit := by decide
  midCrit := by decide
  mode := by decide
  procs := by decide
  bf := by decide
  atLeastOne := by decide
  nonempty := by decide
  width := by decide

example (X : ExpTab) (sched : Nat → List Nat → List Nat) (junk : MR.FS) :
    ∃ fs, cliMultiround (refPolicy X) exampleMulti exampleFiles sched junk = .ok fs :=
  C15_total_multi_ref X exampleMulti exampleFiles 3
    ⟨by decide, by decide, by decide, by decide, by decide, by decide, by decide, by decide⟩ sched junk (Or.inr rfl)

example : validateOutputDir ["clusters.pkl", "old.txt"] false = .error .value ∧
    validateOutputDir ["clusters.pkl", "old.txt"] true = .ok [] ∧ validateOutputDir [] false = .ok [] := by
  decide


/-! ## The same for the code itself (`cli._validate_output_dir`, translated on this run) -/

/-- code: on an existing directory with listing `entries`, the translated `_validate_output_dir` raises (touching nothing)
exactly when the model refuses; otherwise it empties a non-empty directory by removing and re-creating it, and leaves an
empty one alone — the model's `validateOutputDir`, to which `C15_outdir`, `C15_outdir_run`, `C15_outdir_refused` apply -/
theorem C15_code_validate (expf : Rat → Rat) (entries : List String) (overwrite : Bool) :
    BBGen._validate_output_dir expf (PV.bool overwrite) (PV.bool (!entries.isEmpty)) (PV.bool true) (PV.bool true)
      = match validateOutputDir entries overwrite with
        | .error _ => [PV.err "RuntimeError"]
        | .ok _ => if entries.isEmpty then []
                   else [PV.str "shutil.rmtree", PV.str "out_dir", PV.str "out_dir.mkdir"] :=
  gen_validate expf entries overwrite

/-- code: a non-empty directory without `--overwrite` is refused and no effect is performed -/
theorem C15_code_refused (expf : Rat → Rat) (entries : List String) (hne : entries ≠ []) :
    BBGen._validate_output_dir expf (PV.bool false) (PV.bool (!entries.isEmpty)) (PV.bool true) (PV.bool true)
      = [PV.err "RuntimeError"] := by
  rw [gen_validate]
  cases entries with
  | nil => exact absurd rfl hne
  | cons a l => simp [validateOutputDir]

end BB.Cli
