/-
C14 — interrupted or repeated runs cannot contaminate results.

A run starts by removing every round file and every final file (`purge`, the model of
`_remove_leftovers`); afterwards it reads only files matching `round-{r}-bufs*.npy` /
`round-{r}-idxs*.pkl`, all of which it wrote itself.  Hence on ANY initial directory content —
in particular on the directory left behind by any crash prefix of any earlier run with any
parameters — a run produces exactly the files it produces on an empty directory, and touches
nothing else (`C14_fresh`).  With `cleanup` no round file survives (`C14_cleanup`).  The cluster
file is written last: in the trace of directory states of a run it is absent from every state
before its own write (`C14_commit_last`), so an interrupted or failing run leaves no
`clusters.pkl` behind — neither its own nor, thanks to the purge, an older one.

No assumption is made on `fs0`: any association list (sorted or not).
-/
import BBProofs.Multiround
import BBProofs.RefPolicy
import BBProofs.GenEq9

namespace BB.MR
open BB

variable (pol : BB.Cfg → Policy)

/-- **C14 (fresh)**: for every initial directory content, a successful run also succeeds on the
empty directory, both results agree on every round file and every final file, the run on the
empty directory holds nothing else, and every other file of `fs0` is untouched -/
theorem C14_fresh (c : Cfg) (files : List (List Row)) (sched : Nat → List Nat → List Nat) (fs0 fs : FS)
    (h : multiround pol c files sched fs0 = .ok fs) :
    ∃ fs', multiround pol c files sched [] = .ok fs' ∧
      (∀ n, isRoundFile n = true ∨ isFinalFile n = true → fs.read n = fs'.read n) ∧
      (∀ n, isRoundFile n = false → isFinalFile n = false → fs'.read n = none) ∧
      (∀ n, isRoundFile n = false → isFinalFile n = false → fs.read n = fs0.read n) := by
  obtain ⟨fs', h1, hs⟩ := multiround_sim pol c files sched fs0 fs h
  refine ⟨fs', h1, ?_, ?_, ?_⟩
  · intro n hn
    apply hs.agree
    rcases hn with hn | hn <;> simp [owned, hn]
  · intro n h1 h2
    exact hs.onlyb n (by simp [owned, h1, h2])
  · intro n h1 h2
    exact hs.keep n (by simp [owned, h1, h2])

/-- the converse direction: a run that succeeds on the empty directory succeeds on every
directory — a run fails on `fs0` iff it fails on the empty directory -/
theorem C14_fresh_isOk (c : Cfg) (files : List (List Row)) (sched : Nat → List Nat → List Nat) (fs0 : FS)
    (fs' : FS) (h : multiround pol c files sched [] = .ok fs') :
    ∃ fs, multiround pol c files sched fs0 = .ok fs :=
  multiround_ok_of_fresh pol c files sched fs0 fs' h

/-- **C14 (cleanup)**: with `cleanup` a successful run leaves no round file behind -/
theorem C14_cleanup (c : Cfg) (files : List (List Row)) (sched : Nat → List Nat → List Nat) (fs0 fs : FS)
    (hc : c.cleanup = true) (h : multiround pol c files sched fs0 = .ok fs) :
    ∀ n ∈ fs.map (·.1), isRoundFile n = false :=
  multiround_cleanup pol c files sched fs0 fs hc h

/-- the trace is the run: its second component is the result of `multiround` -/
theorem C14_trace_result (c : Cfg) (files : List (List Row)) (sched : Nat → List Nat → List Nat) (fs0 : FS) :
    (multiroundTrace pol c files sched fs0).2 = multiround pol c files sched fs0 :=
  multiroundTrace_snd pol c files sched fs0

/-- **C14 (commit last)**: let `tr` be the directory states of a run (after the purge, after every
single file write, after the cleanup).  If the run fails, `clusters.pkl` is in no state of `tr`.
If it succeeds with `fs`, then `tr = pre ++ post` where no state of `pre` holds `clusters.pkl`
and `post` is the state after the very last write (plus the state after the cleanup, if any),
ending in `fs`.  Any interruption of the run leaves a state of `tr` behind: unless the last write
was reached there is no cluster file. -/
theorem C14_commit_last (c : Cfg) (files : List (List Row)) (sched : Nat → List Nat → List Nat) (fs0 : FS) :
    (∀ e, multiround pol c files sched fs0 = .error e →
        ∀ s ∈ (multiroundTrace pol c files sched fs0).1, s.read "clusters.pkl" = none) ∧
    (∀ fs, multiround pol c files sched fs0 = .ok fs →
        ∃ pre post, (multiroundTrace pol c files sched fs0).1 = pre ++ post ∧
          (∀ s ∈ pre, s.read "clusters.pkl" = none) ∧
          post.getLast? = some fs ∧ 1 ≤ post.length ∧ post.length ≤ 2 ∧
          ∃ cl, ∀ s ∈ post, s.read "clusters.pkl" = some (.clusters cl)) := by
  rw [← multiroundTrace_snd]
  exact multiroundTrace_commit pol c files sched fs0

/-- the first state of the trace is the purged directory: no leftover of an earlier run — round
file, cluster file or centroid file — survives the start of a run -/
theorem C14_purge_first (c : Cfg) (files : List (List Row)) (sched : Nat → List Nat → List Nat) (fs0 : FS) :
    (multiroundTrace pol c files sched fs0).1.head? = some (purge fs0) ∧
    ∀ n, isRoundFile n = true ∨ isFinalFile n = true → (purge fs0).read n = none := by
  constructor
  · unfold multiroundTrace
    simp only
    split
    · rfl
    · split
      · rfl
      · split
        · rfl
        · split <;> rfl
  · intro n hn
    rw [purge, read_remove]
    rcases hn with hn | hn <;> simp [hn]

/-- for the code's own decisions -/
theorem C14_fresh_ref (X : ExpTab) (c : Cfg) (files : List (List Row)) (sched : Nat → List Nat → List Nat)
    (fs0 fs : FS) (h : multiround (refPolicy X) c files sched fs0 = .ok fs) :
    ∃ fs', multiround (refPolicy X) c files sched [] = .ok fs' ∧
      (∀ n, isRoundFile n = true ∨ isFinalFile n = true → fs.read n = fs'.read n) ∧
      (∀ n, isRoundFile n = false → isFinalFile n = false → fs'.read n = none) ∧
      (∀ n, isRoundFile n = false → isFinalFile n = false → fs.read n = fs0.read n) :=
  C14_fresh (refPolicy X) c files sched fs0 fs h

/-! Non-vacuity: a (sorted) directory with leftovers of all kinds (a stale round file that the
listing of round 1 would match, a stale cluster file, an unrelated file); the purge removes
exactly the first two. -/
example : FS.Sorted [("clusters.pkl", Content.clusters [[0]]), ("notes.txt", Content.other 7),
    (bufName 1 "0" W.u8, Content.bufs W.u8 [])] ∧
    matchB 1 (bufName 1 "0" W.u8) = true ∧ isRoundFile "notes.txt" = false ∧ isFinalFile "notes.txt" = false := by
  refine ⟨?_, (matchB_bufName 1 1 "0" W.u8).mpr rfl, ?_, ?_⟩
  · refine List.Pairwise.cons ?_ (List.Pairwise.cons ?_ (List.Pairwise.cons (by simp) List.Pairwise.nil))
    · intro x hx
      simp only [List.mem_cons, List.not_mem_nil, or_false] at hx
      rcases hx with rfl | rfl
      · show "clusters.pkl" < "notes.txt"
        decide
      · show "clusters.pkl" < bufName 1 "0" W.u8
        rw [str_lt_iff, bufName_toList]; decide
    · intro x hx
      simp only [List.mem_cons, List.not_mem_nil, or_false] at hx
      subst hx
      show "notes.txt" < bufName 1 "0" W.u8
      rw [str_lt_iff, bufName_toList]; decide
  · rw [← Bool.not_eq_true, isRoundFile_iff]; decide
  · simp [isFinalFile]

/-! ### the code: `multiround._pickle_dump_atomic` as translated from `/repo` on this run -/

/-- code: a result file (`clusters.pkl`, the centroid file) is published by exactly these effects — pickle into the sibling
`<name>.tmp`, close it, rename it onto the final name -/
theorem C14_code_dump_effects (expf : Rat → Rat) (obj : PV) (parent name : String) :
    BBGen._pickle_dump_atomic expf obj (PV.str name) (PV.str parent)
      = [PV.str "open", PV.str (parent ++ "/" ++ (name ++ ".tmp")), PV.str "wb",
         PV.str "pickle.dump", PV.str (parent ++ "/" ++ (name ++ ".tmp")), PV.str "obj",
         PV.str "close", PV.str (parent ++ "/" ++ (name ++ ".tmp")),
         PV.str "os.replace", PV.str (parent ++ "/" ++ (name ++ ".tmp")), PV.str "path"] :=
  gen_dump_atomic expf obj parent name

/-- code: … so the single atomic write by which the model publishes a result file (`FS.write` in `multiroundTrace`) is what an
observer of the final name sees: the old content at every interruption point before the last effect, the complete new object
after it, never a torn file; no temporary name is left -/
theorem C14_code_dump_atomic (expf : Rat → Rat) (obj : PV) (parent name : String) :
    pubTrace (parent ++ "/" ++ (name ++ ".tmp")) (FinalC.old, TmpC.absent)
        (BBGen._pickle_dump_atomic expf obj (PV.str name) (PV.str parent))
      = [(FinalC.old, TmpC.torn), (FinalC.old, TmpC.full), (FinalC.old, TmpC.full), (FinalC.new, TmpC.absent)] :=
  gen_dump_atomic_trace expf obj parent name

/-- the reading of the effects is not vacuous: writing the final name in place would be seen torn -/
example : pubTrace "d/x.tmp" (FinalC.old, TmpC.absent)
    [PV.str "open", PV.str "path", PV.str "wb", PV.str "pickle.dump", PV.str "path", PV.str "obj", PV.str "close", PV.str "path"]
    = [(FinalC.torn, TmpC.absent), (FinalC.new, TmpC.absent), (FinalC.new, TmpC.absent)] := by
  decide +kernel

end BB.MR
