/-
C10 — merge criteria obey their documented laws.

`accept m X thr new old nom` is the transcription of the six `__call__` bodies of
`bblean/_merges.py`; `X.E n` stands for `np.exp(-decay*n)` and `X.off` for
`np.exp(-decay*n_max)`, about which only antitonicity and `off = E 1000` are assumed.
Being a Lean function, `accept` is pure by construction; that the Python objects are
(no hidden state between calls) is what the S-MERGE correspondence exercises.
-/
import BBProofs.Merges
import BBProofs.Fl
import BBProofs.GenEq3

namespace BB

/-- accepting at a threshold implies accepting at every lower one — all six criteria -/
theorem C10_mono_thr (m : MergeFn) (X : ExpTab) (t t' : Rat) (new old nom : Summary)
    (h : accept m X t new old nom = true) (ht : t' ≤ t) : accept m X t' new old nom = true :=
  accept_mono_thr m X t t' new old nom h ht

/-- acceptance implies the criterion's statistic of the merged cluster is at least the threshold -/
theorem C10_accept_sound (m : MergeFn) (X : ExpTab) (t : Rat) (new old nom : Summary) (hn : 2 ≤ new.n)
    (h : accept m X t new old nom = true) : ∃ v, stat m.crit new = some v ∧ t ≤ v :=
  accept_sound m X t new old nom hn h

/-- plain criteria: accept iff the statistic reaches the threshold -/
theorem C10_radius_iff (m : MergeFn) (X : ExpTab) (t : Rat) (new old nom : Summary) (hc : m.crit = .radius)
    (hn : 2 ≤ new.n) : accept m X t new old nom = true ↔ ∃ v, stat m.crit new = some v ∧ t ≤ v :=
  accept_radius_iff m X t new old nom hc hn

theorem C10_diameter_iff (m : MergeFn) (X : ExpTab) (t : Rat) (new old nom : Summary) (hc : m.crit = .diameter)
    (hn : 2 ≤ new.n) : accept m X t new old nom = true ↔ ∃ v, stat m.crit new = some v ∧ t ≤ v :=
  accept_diameter_iff m X t new old nom hc hn

/-- tolerance variants, old cluster a singleton: accept iff the base criterion holds -/
theorem C10_singleton (m : MergeFn) (X : ExpTab) (t : Rat) (new old nom : Summary)
    (hc : m.crit = .tolDiameter ∨ m.crit = .tolRadius) (ho : old.n = 1) (hn : 2 ≤ new.n) :
    accept m X t new old nom = true ↔ ∃ v, stat m.crit new = some v ∧ t ≤ v :=
  accept_singleton m X t new old nom hc ho hn

/-- tolerance variants otherwise: additionally the merged statistic must be no lower than the old
cluster's minus the slack -/
theorem C10_tol_iff (m : MergeFn) (X : ExpTab) (t : Rat) (new old nom : Summary)
    (hc : m.crit = .tolDiameter ∨ m.crit = .tolRadius) (ho : 2 ≤ old.n) (hn : 2 ≤ new.n) :
    accept m X t new old nom = true ↔
      ∃ v o, stat m.crit new = some v ∧ stat m.crit old = some o ∧ t ≤ v ∧ fsub o (slack X m.tol old.n) ≤ v :=
  accept_tol_iff m X t new old nom hc ho hn

/-- the slack is non-negative … -/
theorem C10_slack_nonneg (X : ExpTab) (tol : Rat) (n : Nat) : 0 ≤ slack X tol n := slack_nonneg X tol n

/-- … non-decreasing in the tolerance … -/
theorem C10_slack_mono (X : ExpTab) (n : Nat) {tol tol' : Rat} (h0 : 0 ≤ tol) (h : tol ≤ tol') :
    slack X tol n ≤ slack X tol' n := slack_mono_tol rnd_isRounding X n h0 h

/-- … and zero for old clusters of 1000 or more -/
theorem C10_slack_zero (X : ExpTab) (hE : Antitone X.E) (hoff : X.off = X.E 1000) {tol : Rat} (h0 : 0 ≤ tol)
    {n : Nat} (hn : 1000 ≤ n) : slack X tol n = 0 := slack_zero rnd_isRounding X hE hoff h0 hn

/-- a larger tolerance accepts at least as much -/
theorem C10_mono_tol (X : ExpTab) (t : Rat) (new old nom : Summary) (c : Crit)
    (hc : c = .tolDiameter ∨ c = .tolRadius) {tol tol' : Rat} (h0 : 0 ≤ tol) (h : tol ≤ tol')
    (ha : accept ⟨c, tol⟩ X t new old nom = true) : accept ⟨c, tol'⟩ X t new old nom = true :=
  accept_mono_tol rnd_isRounding X t new old nom c hc h0 h ha

/-- legacy tolerance: acceptance implies the diameter bound; singleton old cluster or multi-member
nominee plus the base criterion suffice -/
theorem C10_legacy (m : MergeFn) (X : ExpTab) (t : Rat) (new old nom : Summary) (hc : m.crit = .tolLegacy)
    (hn : 2 ≤ new.n) :
    (accept m X t new old nom = true → ∃ v, isimFromSum new.ls new.n = some v ∧ t ≤ v) ∧
    ((old.n = 1 ∨ nom.n ≠ 1) → ∀ v, isimFromSum new.ls new.n = some v → t ≤ v → accept m X t new old nom = true) :=
  ⟨accept_legacy_sound m X t new old nom hc hn, fun hs v hv ht => accept_legacy_easy m X t new old nom hc hn hs v hv ht⟩

/-- never-merge rejects everything -/
theorem C10_never (m : MergeFn) (X : ExpTab) (t : Rat) (new old nom : Summary) (hc : m.crit = .never) :
    accept m X t new old nom = false := accept_never m X t new old nom hc

/-- dispatch by name: the six names are distinct, each yields its own criterion with the given
tolerance, anything else is refused -/
theorem C10_dispatch :
    Function.Injective Crit.name ∧ (∀ c tol, getMergeFn c.name tol = some ⟨c, tol⟩) ∧
    (∀ name tol, getMergeFn name tol = none ↔ ∀ c : Crit, c.name ≠ name) :=
  ⟨name_injective, getMergeFn_name, getMergeFn_none_iff⟩

/-! Non-vacuity: a pair the diameter criterion accepts at 1/2 (two identical fingerprints). -/
example : accept ⟨.diameter, defaultTol⟩ ⟨fun _ => 1, 1⟩ (1/2) ⟨[2, 2, 0], 2⟩ ⟨[1, 1, 0], 1⟩ ⟨[1, 1, 0], 1⟩ = true := by
  decide +kernel

/-! ## The same laws for the code itself

`BBGen.get_merge_accept_fn` and the `*_call` functions are the Lean text that `tools/py2lean.py`
wrote from `bblean/_merges.py`, `_py_similarity.py`, `similarity.py` on this run (statement by
statement; Python / NumPy arithmetic is the algebra `PV` of `BBModel/PyNum.lean`).  `codeAccept` is
"look the criterion up by name, call the object".  `expf` stands for `np.exp`; `SumOk` says the
summary is one the tree can produce (sums ≤ count < 2^53, no division by zero). -/

/-- `get_merge_accept_fn(name, tol)(thr, new_ls, new_n, old_ls, nom_ls, old_n, nom_n)` -/
def codeAccept (expf : Rat → Rat) (name : String) (tol thr : Rat) (new old nom : Summary) (w w' w'' : W) : PV :=
  BBGen.MergeAcceptFunction_call expf (BBGen.get_merge_accept_fn expf (PV.str name) (PV.flt (some tol))) (PV.flt (some thr))
    (PV.arr w new.ls) (PV.int new.n) (PV.arr w' old.ls) (PV.arr w'' nom.ls) (PV.int old.n) (PV.int nom.n)

/-- the translated code computes the model's `accept`, for every criterion, tolerance, threshold -/
theorem C10_code_accept (expf : Rat → Rat) (c : Crit) (tol thr : Rat) (new old nom : Summary) (w w' w'' : W)
    (hn : SumOk new) (ho : SumOk old) (hO : 1 ≤ old.n) :
    codeAccept expf c.name tol thr new old nom w w' w''
      = PV.bool (accept ⟨c, tol⟩ (tabOf expf) thr new old nom) := by
  unfold codeAccept
  rw [gen_dispatch, getMergeFn_name]
  exact gen_accept expf ⟨c, tol⟩ thr new old nom w w' w'' hn ho hO

/-- code: accepting at a threshold implies accepting at every lower one -/
theorem C10_code_mono_thr (expf : Rat → Rat) (c : Crit) (tol t t' : Rat) (new old nom : Summary) (w w' w'' : W)
    (hn : SumOk new) (ho : SumOk old) (hO : 1 ≤ old.n)
    (h : codeAccept expf c.name tol t new old nom w w' w'' = PV.bool true) (ht : t' ≤ t) :
    codeAccept expf c.name tol t' new old nom w w' w'' = PV.bool true := by
  rw [C10_code_accept expf c tol _ new old nom w w' w'' hn ho hO] at h ⊢
  have h' : accept ⟨c, tol⟩ (tabOf expf) t new old nom = true := by simpa using h
  rw [C10_mono_thr _ _ t t' new old nom h' ht]

/-- code: acceptance implies the criterion's statistic of the merged cluster reaches the threshold -/
theorem C10_code_sound (expf : Rat → Rat) (c : Crit) (tol t : Rat) (new old nom : Summary) (w w' w'' : W)
    (hn : SumOk new) (ho : SumOk old) (hO : 1 ≤ old.n) (h2 : 2 ≤ new.n)
    (h : codeAccept expf c.name tol t new old nom w w' w'' = PV.bool true) :
    ∃ v, stat c new = some v ∧ t ≤ v := by
  rw [C10_code_accept expf c tol _ new old nom w w' w'' hn ho hO] at h
  have h' : accept ⟨c, tol⟩ (tabOf expf) t new old nom = true := by simpa using h
  exact C10_accept_sound ⟨c, tol⟩ _ t new old nom h2 h'

/-- code: never-merge rejects everything -/
theorem C10_code_never (expf : Rat → Rat) (tol t : Rat) (new old nom : Summary) (w w' w'' : W)
    (hn : SumOk new) (ho : SumOk old) (hO : 1 ≤ old.n) :
    codeAccept expf "never-merge" tol t new old nom w w' w'' = PV.bool false := by
  have := C10_code_accept expf .never tol t new old nom w w' w'' hn ho hO
  rw [show Crit.never.name = "never-merge" from rfl] at this
  rw [this, C10_never ⟨.never, tol⟩ _ t new old nom rfl]

/-- code: a name that is none of the six raises `ValueError` -/
theorem C10_code_unknown (expf : Rat → Rat) (name : String) (tol : Rat) (h : ∀ c : Crit, c.name ≠ name) :
    BBGen.get_merge_accept_fn expf (PV.str name) (PV.flt (some tol)) = PV.err "ValueError" := by
  rw [gen_dispatch, (C10_dispatch.2.2 name tol).mpr h]

/-- the exp table of the code is antitone as soon as `np.exp` is monotone -/
theorem tabOf_antitone (expf : Rat → Rat) (hexp : Monotone expf) : Antitone (tabOf expf).E := by
  intro a b hab
  apply hexp
  unfold fmul
  apply rnd_mono
  have h1 : rnd (a : Rat) ≤ rnd (b : Rat) := rnd_mono (by exact_mod_cast hab)
  have hd : (0 : Rat) ≤ decay0 := by unfold decay0; norm_num
  nlinarith

/-- code: the slack is zero for old clusters of 1000 or more (only monotonicity of `np.exp` assumed) -/
theorem C10_code_slack_zero (expf : Rat → Rat) (hexp : Monotone expf) {tol : Rat} (h0 : 0 ≤ tol) {n : Nat}
    (hn : 1000 ≤ n) : slack (tabOf expf) tol n = 0 :=
  C10_slack_zero (tabOf expf) (tabOf_antitone expf hexp) (by simp [tabOf]) h0 hn

/-! Non-vacuity: the summary of two identical 2-bit fingerprints is `SumOk`. -/
example : SumOk ⟨[2, 2, 0], 2⟩ :=
  ⟨by decide, by norm_num, by decide +kernel, by decide +kernel⟩


/-- code: the same with the side conditions spelled out — for ANY two summaries whose sums are bounded by their counts
(what the tree holds), below the float-exact range, the translated criterion object computes the model's `accept` -/
theorem C10_code_accept_consistent (expf : Rat → Rat) (c : Crit) (tol thr : Rat) (new old nom : Summary) (w w' w'' : W)
    (hkn : ∀ k ∈ new.ls, k ≤ new.n) (hnn : new.n + 1 < 2 ^ 53) (hbn : (new.n + 1) * (new.ls.sum + new.ls.length) < 2 ^ 64)
    (hko : ∀ k ∈ old.ls, k ≤ old.n) (hno : old.n + 1 < 2 ^ 53) (hbo : (old.n + 1) * (old.ls.sum + old.ls.length) < 2 ^ 64)
    (hO : 1 ≤ old.n) :
    codeAccept expf c.name tol thr new old nom w w' w''
      = PV.bool (accept ⟨c, tol⟩ (tabOf expf) thr new old nom) :=
  C10_code_accept expf c tol thr new old nom w w' w'' (sumOk_of_consistent new hkn hnn hbn)
    (sumOk_of_consistent old hko hno hbo) hO


/-! The remaining laws, for the code: each is the model's law read through `C10_code_accept`. -/

/-- code: tolerance variants with a singleton old cluster accept iff the base criterion holds -/
theorem C10_code_singleton (expf : Rat → Rat) (c : Crit) (tol t : Rat) (new old nom : Summary) (w w' w'' : W)
    (hc : c = .tolDiameter ∨ c = .tolRadius) (hn : SumOk new) (ho : SumOk old) (h1 : old.n = 1) (h2 : 2 ≤ new.n) :
    codeAccept expf c.name tol t new old nom w w' w'' = PV.bool true ↔ ∃ v, stat c new = some v ∧ t ≤ v := by
  rw [C10_code_accept expf c tol t new old nom w w' w'' hn ho (by omega)]
  have := C10_singleton ⟨c, tol⟩ (tabOf expf) t new old nom hc h1 h2
  constructor
  · intro h; exact this.mp (by simpa using h)
  · intro h; rw [this.mpr h]

/-- code: otherwise the merged statistic must also be no lower than the old cluster's minus the slack -/
theorem C10_code_tol_iff (expf : Rat → Rat) (c : Crit) (tol t : Rat) (new old nom : Summary) (w w' w'' : W)
    (hc : c = .tolDiameter ∨ c = .tolRadius) (hn : SumOk new) (ho : SumOk old) (h1 : 2 ≤ old.n) (h2 : 2 ≤ new.n) :
    codeAccept expf c.name tol t new old nom w w' w'' = PV.bool true ↔
      ∃ v o, stat c new = some v ∧ stat c old = some o ∧ t ≤ v ∧ fsub o (slack (tabOf expf) tol old.n) ≤ v := by
  rw [C10_code_accept expf c tol t new old nom w w' w'' hn ho (by omega)]
  have := C10_tol_iff ⟨c, tol⟩ (tabOf expf) t new old nom hc h1 h2
  constructor
  · intro h; exact this.mp (by simpa using h)
  · intro h; rw [this.mpr h]

/-- code: a larger tolerance accepts at least as much -/
theorem C10_code_mono_tol (expf : Rat → Rat) (c : Crit) (t : Rat) (new old nom : Summary) (w w' w'' : W)
    (hc : c = .tolDiameter ∨ c = .tolRadius) (hn : SumOk new) (ho : SumOk old) (hO : 1 ≤ old.n)
    {tol tol' : Rat} (h0 : 0 ≤ tol) (h : tol ≤ tol')
    (ha : codeAccept expf c.name tol t new old nom w w' w'' = PV.bool true) :
    codeAccept expf c.name tol' t new old nom w w' w'' = PV.bool true := by
  rw [C10_code_accept expf c _ t new old nom w w' w'' hn ho hO] at ha ⊢
  have ha' : accept ⟨c, tol⟩ (tabOf expf) t new old nom = true := by simpa using ha
  rw [C10_mono_tol (tabOf expf) t new old nom c hc h0 h ha']

/-- code: the slack of the translated criteria is non-negative and non-decreasing in the tolerance -/
theorem C10_code_slack (expf : Rat → Rat) (n : Nat) {tol tol' : Rat} (h0 : 0 ≤ tol) (h : tol ≤ tol') :
    0 ≤ slack (tabOf expf) tol n ∧ slack (tabOf expf) tol n ≤ slack (tabOf expf) tol' n :=
  ⟨C10_slack_nonneg _ _ _, C10_slack_mono _ _ h0 h⟩

end BB
