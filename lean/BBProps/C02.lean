/-
C02 — reported cluster summaries are exact for their members.

`Exact D c`: the stored count is the number of member labels, the stored per-bit sums are
the column sums of exactly those members' fingerprints (`D` maps a label to the fingerprint
fitted under it), the cached centroid is the majority vote of those sums (ties set), and
the counter width is the narrowest that holds the count.  Holds for every reported cluster
after every history, across all width promotions: no counter ever wraps.
-/
import BBProofs.Ops
import BBProofs.RefPolicy
import BBProofs.Exact
import BBProofs.GenEq
import BBProofs.GenEq3
import BBProofs.GenEq6

namespace BB

/-- side conditions of one operation: the rows given to `fit` are the fingerprints `D` assigns to
the labels they receive, `refine` is given the fingerprints that were fitted, the history is
reset-free (a `reset` starts a new history, see `C01_reset`) -/
def OpData (F : Nat) (D : Nat → Row) (e : Est) : Op → Prop
  | .fit rows labels => labels = none ∧ (∀ r0, rows.head? = some r0 → r0.length = F) ∧
      (e.st.isLeavesOnly = false → ∀ i (hi : i < rows.length), rows[i].length = F → D (e.numFitted + i) = rows[i])
  | .refine _ data im _ => (∀ r ∈ data, r.length = F) ∧ ∀ id r, im ≤ id → data[id - im]? = some r → r = D id
  | .setMerge _ _ _ b => ∀ b', b = some b' → 2 ≤ b'
  | .setBf b => 2 ≤ b
  | .reset => False
  | _ => True

/-- the history is consistent with the labelling `D` -/
def Consistent (X : ExpTab) (F : Nat) (D : Nat → Row) : Est → List Op → Prop
  | _, [] => True
  | e, op :: ops => OpData F D e op ∧ Consistent X F D (step X e op).1 ops

theorem refPolicy_mergeClosed_exact (X : ExpTab) (D : Nat → Row) (cfg : Cfg) :
    MergeClosed (refPolicy X) (Exact D) cfg := by
  intro c s hc hs _
  exact exact_merge D c s hc hs

theorem runOK_of_consistent (X : ExpTab) (F : Nat) (D : Nat → Row) : ∀ (ops : List Op) (e : Est),
    Consistent X F D e ops → RunOK (refPolicy X) F (Exact D) e ops
  | [], _, _ => trivial
  | op :: ops, e, h => by
    refine ⟨?_, runOK_of_consistent X F D ops _ h.2⟩
    have hop := h.1
    cases op with
    | fit rows labels =>
      exact ⟨hop.1, hop.2.1, fun hlo i hi hl => exact_ofRow D _ _ (hop.2.2 hlo i hi hl), refPolicy_mergeClosed_exact X D _⟩
    | refine n data im srt =>
      refine ⟨hop.1, fun id r hle hr => ?_, refPolicy_mergeClosed_exact X D _⟩
      have := hop.2 id r hle hr
      subst this
      exact exact_ofBuffer_singleton D id
    | recluster it extra perms stop => exact fun _ _ _ => refPolicy_mergeClosed_exact X D _
    | setMerge c t th b => exact hop
    | setBf b => exact hop
    | setThr t => trivial
    | delInternal => trivial
    | reset => exact hop.elim

/-- **C02**: every reported cluster (sorted report or leaf order) is exact for its members -/
theorem C02_exact (X : ExpTab) (cfg : Cfg) (hbf : 2 ≤ cfg.bf) (F : Nat) (D : Nat → Row) (ops : List Op)
    (h : Consistent X F D (init cfg) ops) :
    (∀ c ∈ (run X (init cfg) ops).st.sortedClus, Exact D c) ∧
    (∀ c ∈ (run X (init cfg) ops).st.leafClus, Exact D c) := by
  have hinv : EInv F (Exact D) (run X (init cfg) ops) :=
    run_inv (refPolicy X) (refPolicy_valid X) F _ (exact_asUnit D) ops _ (init_inv F _ cfg hbf)
      (runOK_of_consistent X F D ops _ h)
  constructor
  · intro c hc
    exact hinv.q c ((mem_of_coe_eq (sortedClus_coe _ hinv.ok) c).mp hc)
  · intro c hc
    exact hinv.q c ((mem_of_coe_eq (TreeSt.leafClus_coe _ hinv.ok) c).mp hc)

/-- the i-th reported centroid belongs to the i-th reported member list: both reports are
projections of one list of sub-clusters (`get_centroids_mol_ids`) -/
theorem C02_aligned (e : Est) (sort : Bool) :
    e.clusters sort = ((if sort then e.st.sortedClus else e.st.leafClus).map (·.ids)) ∧
    ((if sort then e.st.sortedClus else e.st.leafClus).map (fun c => (c.cent, c.ids))).map (·.2) = e.clusters sort := by
  constructor
  · rfl
  · simp [Est.clusters, List.map_map, Function.comp_def]

/-- the centroid of an exact cluster is the per-bit majority of its members, ties set to 1 -/
theorem C02_majority (D : Nat → Row) (c : Clu) (h : Exact D c) (h2 : 2 ≤ c.n) (i : Nat) :
    c.cent.getD i false = decide (c.n ≤ 2 * ((c.ids.map D).filter (fun r => r.getD i false)).length) :=
  exact_centroid_majority D c h h2 i

/-- **no wrap-around at any width**: on exact summaries the width-limited arithmetic of a merge
equals unbounded arithmetic (in particular across 255/256, 65 535/65 536 and 2^32-1/2^32) -/
theorem C02_no_wrap_merge (D : Nat → Row) (c s : Clu) (hc : Exact D c) (hs : Exact D s) :
    (c.merge s).ls = addLs c.ls s.ls ∧ (c.merge s).n = c.n + s.n ∧ (c.merge s).w = minSafe (c.n + s.n) :=
  ⟨(merge_unbounded D c s hc hs).1, (merge_unbounded D c s hc hs).2, rfl⟩

/-- the same for the in-place update of a tracking entry -/
theorem C02_no_wrap_update (D : Nat → Row) (c s : Clu) (hc : Exact D c) (hs : Exact D s) :
    (c.update s).ls = addLs c.ls s.ls ∧ (c.update s).n = c.n + s.n ∧ (c.update s).w = minSafe (c.n + s.n) :=
  ⟨(update_unbounded D c s hc hs).1, (update_unbounded D c s hc hs).2, rfl⟩

/-- the chosen width is the narrowest unsigned width that holds the count -/
theorem C02_narrowest (n : Nat) (h : n < 2 ^ 64) (w : W) (hw : n < 2 ^ w.bits) : (minSafe n).bits ≤ w.bits :=
  minSafe_narrowest n h w hw

/-- below 2^64 the counter is one of the four NumPy widths (never the model's unbounded stand-in
for the `ValueError` of `min_safe_uint`) -/
theorem C02_width_real (n : Nat) (h : n < 2 ^ 64) : minSafe n ≠ .big :=
  (minSafe_ne_big_iff n).mpr h

/-! Non-vacuity: a cluster crossing the 255/256 boundary. -/
example : (Clu.merge { n := 255, w := .u8, ls := [255, 0], ids := List.range 255, cent := [true, false] }
    (Clu.ofRow [true, true] 255)).ls = [256, 1] := by decide

/-! ## The same for the code itself

`BBGen.*` is the Lean text `tools/py2lean.py` wrote from the Python sources on this run; `PV` is the
Python / NumPy value algebra of `BBModel/PyNum.lean` (see `BBProofs/GenEq.lean`). -/

/-- code: `min_safe_uint(n)` returns the narrowest unsigned dtype holding `n`, and raises `ValueError`
exactly from 2^64 on -/
theorem C02_code_min_safe_uint (expf : Rat → Rat) (n : Nat) :
    BBGen.min_safe_uint expf (PV.int n) =
      if n < 2 ^ 64 then PV.dtype (some (minSafe n)) else PV.err "ValueError" := by
  rw [gen_min_safe_uint]
  unfold minSafe? minSafe
  split_ifs <;> first | rfl | omega

/-- code: the centroid stored with a summary is the majority vote (packed) -/
theorem C02_code_centroid (expf : Rat → Rat) (w : W) (ls : List Nat) (n : Nat)
    (hk : ∀ k ∈ ls, k ≤ n) (hn : n < 2 ^ 53) :
    BBGen.centroid_from_sum expf (PV.arr w ls) (PV.int n) (PV.bool true)
      = PV.arr .u8 (pack (centroidFromSum ls n)) := gen_centroid_packed expf w ls n hk hn


/-! ### the sub-cluster object itself (`_BFSubcluster`, translated from `bitbirch.py` on this run)

`stateOf c child` is the object's four `__slots__` for the model cluster `c`: `_buffer` = the sums followed by the
count in ONE unsigned array of width `c.w`, `packed_centroid`, `child`, `mol_indices`. -/

/-- code: `self.update(sub)` on exact summaries yields the object of an exact summary of the union: count, sums,
centroid, member list, and the buffer is held in the narrowest width for the new count — whatever widths the two
buffers had before (255 → 256, 65 535 → 65 536, …) -/
theorem C02_code_update (expf : Rat → Rat) (D : Nat → Row) (c s : Clu) (child scent schild : PV)
    (hc : Exact D c) (hs : Exact D s) (hlen : c.ls.length = s.ls.length) (hn : c.n + s.n < 2 ^ 53) :
    ∃ c', BBGen._BFSubcluster_update expf (bufOf c) (PV.arr .u8 (pack c.cent)) child (PV.arr .big c.ids)
            (bufOf s) scent schild (PV.arr .big s.ids) = stateOf c' child
      ∧ Exact D c' ∧ c'.ids = c.ids ++ s.ids ∧ c'.n = c.n + s.n ∧ c'.ls = addLs c.ls s.ls ∧ c'.w = minSafe (c.n + s.n) := by
  refine ⟨c.update s, gen_update expf c s child scent schild (cluOk_of_exact D c hc (by omega))
    (cluOk_of_exact D s hs (by omega)) hlen hn, exact_update D c s hc hs, rfl, ?_, ?_, rfl⟩
  · exact (update_unbounded D c s hc hs).2
  · exact (update_unbounded D c s hc hs).1

/-- code: `self.merge_subcluster(nominee, threshold, merge_accept_fn)` with the object `get_merge_accept_fn` builds:
returns `True` and becomes the object of the exact summary of the union iff the criterion accepts the candidate
(formed in the narrowest width for the new count); otherwise returns `False` and is unchanged -/
theorem C02_code_merge (expf : Rat → Rat) (D : Nat → Row) (m : MergeFn) (thr : Rat) (c s : Clu)
    (child scent schild : PV) (hc : Exact D c) (hs : Exact D s) (hlen : c.ls.length = s.ls.length)
    (hn : c.n + s.n < 2 ^ 53) (hnew : SumOk (c.mergedSummary s)) (hold : SumOk c.summary) (hO : 1 ≤ c.n) :
    ∃ c', BBGen._BFSubcluster_merge_subcluster expf (bufOf c) (PV.arr .u8 (pack c.cent)) child (PV.arr .big c.ids)
            (bufOf s) scent schild (PV.arr .big s.ids) (PV.flt (some thr)) (objOf expf m)
          = PV.bool (accept m (tabOf expf) thr (c.mergedSummary s) c.summary s.summary) :: stateOf c' child
      ∧ Exact D c'
      ∧ c'.ids = (if accept m (tabOf expf) thr (c.mergedSummary s) c.summary s.summary then c.ids ++ s.ids else c.ids) := by
  have h := gen_merge_subcluster expf m thr c s child scent schild (cluOk_of_exact D c hc (by omega))
    (cluOk_of_exact D s hs (by omega)) hlen hn hnew hold hO
  by_cases ha : accept m (tabOf expf) thr (c.mergedSummary s) c.summary s.summary = true
  · exact ⟨c.merge s, by rw [h]; simp [ha], exact_merge D c s hc hs, by simp [ha, Clu.merge]⟩
  · exact ⟨c, by rw [h]; simp [ha], hc, by simp [ha]⟩


/-- code: `C02_code_merge` with the side conditions spelled out: exact summaries of equal feature count, the merged
count below the float-exact range and no uint64 wrap-around in the statistics -/
theorem C02_code_merge_exact (expf : Rat → Rat) (D : Nat → Row) (m : MergeFn) (thr : Rat) (c s : Clu)
    (child scent schild : PV) (hc : Exact D c) (hs : Exact D s) (hlen : c.ls.length = s.ls.length)
    (hn : c.n + s.n + 1 < 2 ^ 53) (hO : 1 ≤ c.n)
    (hb : (c.n + s.n + 1) * ((addLs c.ls s.ls).sum + c.ls.length) < 2 ^ 64) :
    ∃ c', BBGen._BFSubcluster_merge_subcluster expf (bufOf c) (PV.arr .u8 (pack c.cent)) child (PV.arr .big c.ids)
            (bufOf s) scent schild (PV.arr .big s.ids) (PV.flt (some thr)) (objOf expf m)
          = PV.bool (accept m (tabOf expf) thr (c.mergedSummary s) c.summary s.summary) :: stateOf c' child
      ∧ Exact D c'
      ∧ c'.ids = (if accept m (tabOf expf) thr (c.mergedSummary s) c.summary s.summary then c.ids ++ s.ids else c.ids) := by
  have hcok := cluOk_of_exact D c hc (by omega)
  have hsok := cluOk_of_exact D s hs (by omega)
  have hmls := mergedSummary_ls c s hcok hsok hlen
  have hle := addLs_le c.ls s.ls hlen c.n s.n hcok.le hsok.le
  have hlen2 := addLs_length_eq c.ls s.ls hlen
  have hnew : SumOk (c.mergedSummary s) := by
    apply sumOk_of_consistent
    · rw [hmls]; exact hle
    · show c.n + s.n + 1 < 2 ^ 53; exact hn
    · show (c.n + s.n + 1) * ((c.mergedSummary s).ls.sum + (c.mergedSummary s).ls.length) < 2 ^ 64
      rw [hmls, hlen2]; exact hb
  have hsum : c.ls.sum ≤ (addLs c.ls s.ls).sum := by
    rw [sum_addLs_le _ _ hlen]; omega
  have hold : SumOk c.summary := by
    apply sumOk_of_consistent
    · exact hcok.le
    · show c.n + 1 < 2 ^ 53; omega
    · show (c.n + 1) * (c.ls.sum + c.ls.length) < 2 ^ 64
      calc (c.n + 1) * (c.ls.sum + c.ls.length) ≤ (c.n + s.n + 1) * ((addLs c.ls s.ls).sum + c.ls.length) :=
            Nat.mul_le_mul (by omega) (by omega)
        _ < 2 ^ 64 := hb
  exact C02_code_merge expf D m thr c s child scent schild hc hs hlen (by omega) hnew hold hO


/-- code: **rebuilding from a saved buffer keeps the summary exact** — re-importing the buffer and member list of an exact
summary (what `_fit_buffers`, `recluster_inplace`, `refine_inplace` and every tree-merging round do) passes the pairing
check and yields the object of that very summary: same count, sums, width, member list, and the majority-vote centroid -/
theorem C02_code_reimport (expf : Rat → Rat) (D : Nat → Row) (c : Clu) (wi : W) (nf : PV)
    (hc : Exact D c) (hn : c.n < 2 ^ 53) :
    BBGen._BFSubcluster_init expf PV.pynone (PV.arr wi c.ids) nf (bufOf c) (PV.bool true)
      = PV.pynone :: stateOf c PV.pynone := by
  have h := gen_subcluster_init_buffer expf c.w c.ls c.n c.ids wi nf true (exact_sum_le D c hc) hn
  unfold bufOf
  rw [h]
  have hlen : ¬ (true = true ∧ c.ids.length ≠ c.n) := by
    rintro ⟨_, hne⟩; exact hne hc.n_eq.symm
  have : Clu.ofBuffer c.w c.ls c.n c.ids = c := by
    cases c
    simp only [Clu.ofBuffer] at *
    congr 1
    exact hc.cent_eq.symm
  rw [this, if_neg hlen]

end BB
