/-
C03 — clusters respect the similarity threshold.

Every reported cluster with two or more members satisfies the bound of a (criterion,
threshold) pair that was in force at some insertion of the history: its statistic — iSIM for
the diameter family, radius complement for the radius family, as computed by the library's
own float formula — is at least that threshold.  With never-merge every cluster is a singleton.
-/
import BBProps.C01
import BBProofs.Merges
import BBProofs.GenEq3
import BBProofs.GenEq2

namespace BB

/-- the configurations under which an operation inserts -/
def visited (e : Est) : Op → List Cfg
  | .fit _ _ => [e.cfg]
  | .refine _ _ _ _ => [e.cfg]
  | .recluster it extra _ _ => (List.range it).map (fun j => { e.cfg with thr := advThr extra (j + 1) e.cfg.thr })
  | _ => []

/-- all configurations in force at some insertion of a history -/
def inForce (X : ExpTab) : Est → List Op → List Cfg
  | _, [] => []
  | e, op :: ops => visited e op ++ inForce X (step X e op).1 ops

/-- the bound a configuration promises for a cluster summary -/
def Bound (cfg : Cfg) (c : Clu) : Prop := ∃ v, stat cfg.merge.crit c.summary = some v ∧ cfg.thr ≤ v

/-- the cluster predicate of C03 relative to a set `G` of configurations -/
def Thr (G : Cfg → Prop) (c : Clu) : Prop := 1 ≤ c.n ∧ (2 ≤ c.n → ∃ cfg', G cfg' ∧ Bound cfg' c)

theorem merge_summary (c s : Clu) : (c.merge s).summary = c.mergedSummary s := by
  simp only [Clu.summary, Clu.merge, Clu.mergedSummary, Summary.mk.injEq, and_true, List.map_map]
  apply List.map_congr_left
  intro x _
  simp only [Function.comp]
  cases minSafe (c.n + s.n) <;> simp [wrap]

theorem mergeClosed_thr (X : ExpTab) (G : Cfg → Prop) (cfg : Cfg) (hG : G cfg) :
    MergeClosed (refPolicy X) (Thr G) cfg := by
  intro c s hc hs ha
  rw [refPolicy_accept] at ha
  have hn : (c.merge s).n = c.n + s.n := rfl
  have h2 : 2 ≤ (c.mergedSummary s).n := by
    have : (c.mergedSummary s).n = c.n + s.n := rfl
    have := hc.1; have := hs.1; omega
  refine ⟨by have := hc.1; omega, fun _ => ⟨cfg, hG, ?_⟩⟩
  obtain ⟨v, hv, hle⟩ := accept_sound cfg.merge X cfg.thr _ _ _ h2 ha
  exact ⟨v, by rw [merge_summary]; exact hv, hle⟩

theorem thr_asUnit (G : Cfg → Prop) (c : Clu) (h : Thr G c) : Thr G c.asUnit := h

theorem runOK_thr (X : ExpTab) (F : Nat) (G : Cfg → Prop) : ∀ (ops : List Op) (e : Est),
    (∀ op ∈ ops, op.WF F) → (∀ cfg' ∈ inForce X e ops, G cfg') → RunOK (refPolicy X) F (Thr G) e ops
  | [], _, _, _ => trivial
  | op :: ops, e, hwf, hG => by
    refine ⟨?_, runOK_thr X F G ops _ (fun o ho => hwf o (List.mem_cons_of_mem _ ho))
      (fun c hc => hG c (List.mem_append_right _ hc))⟩
    have hop := hwf op (by simp)
    have hv : ∀ cfg' ∈ visited e op, G cfg' := fun c hc => hG c (List.mem_append_left _ hc)
    cases op with
    | fit rows labels =>
      exact ⟨hop.1, hop.2, fun _ _ _ _ => ⟨le_refl 1, fun h => by simp [Clu.ofRow] at h⟩,
        mergeClosed_thr X G _ (hv _ (by simp [visited]))⟩
    | refine n data im srt =>
      exact ⟨hop, fun _ _ _ _ => ⟨le_refl 1, fun h => by simp [single, Clu.ofBuffer] at h⟩,
        mergeClosed_thr X G _ (hv _ (by simp [visited]))⟩
    | recluster it extra perms stop =>
      intro j hj1 hjk
      apply mergeClosed_thr X G _ (hv _ _)
      simp only [visited, List.mem_map, List.mem_range]
      exact ⟨j - 1, by omega, by congr 2; omega⟩
    | setMerge c t th b => exact hop
    | setBf b => exact hop
    | setThr t => trivial
    | delInternal => trivial
    | reset => trivial

/-- **C03**: a reported cluster with ≥ 2 members meets the bound of a configuration that was in
force at some insertion of the history -/
theorem C03_threshold (X : ExpTab) (cfg : Cfg) (hbf : 2 ≤ cfg.bf) (F : Nat) (ops : List Op)
    (hwf : ∀ op ∈ ops, op.WF F) :
    ∀ c ∈ (run X (init cfg) ops).st.sortedClus, 2 ≤ c.n →
      ∃ cfg' ∈ inForce X (init cfg) ops, ∃ v, stat cfg'.merge.crit c.summary = some v ∧ cfg'.thr ≤ v := by
  have hinv : EInv F (Thr (fun c => c ∈ inForce X (init cfg) ops)) (run X (init cfg) ops) :=
    run_inv (refPolicy X) (refPolicy_valid X) F _ (thr_asUnit _) ops _ (init_inv F _ cfg hbf)
      (runOK_thr X F _ ops _ hwf (fun _ h => h))
  intro c hc h2
  exact (hinv.q c ((mem_of_coe_eq (sortedClus_coe _ hinv.ok) c).mp hc)).2 h2

/-- with never-merge in force at every insertion, every cluster is a singleton -/
theorem C03_never (X : ExpTab) (cfg : Cfg) (hbf : 2 ≤ cfg.bf) (F : Nat) (ops : List Op)
    (hwf : ∀ op ∈ ops, op.WF F) (hnever : ∀ cfg' ∈ inForce X (init cfg) ops, cfg'.merge.crit = .never) :
    ∀ c ∈ (run X (init cfg) ops).st.sortedClus, c.n = 1 := by
  have hmc : ∀ cfg', cfg'.merge.crit = .never → MergeClosed (refPolicy X) (fun c => c.n = 1) cfg' := by
    intro cfg' hc c s _ _ ha
    rw [refPolicy_accept] at ha
    rw [accept_never _ _ _ _ _ _ hc] at ha
    exact absurd ha (by decide)
  have hrun : ∀ (ops : List Op) (e : Est), (∀ op ∈ ops, op.WF F) →
      (∀ cfg' ∈ inForce X e ops, cfg'.merge.crit = .never) →
      RunOK (refPolicy X) F (fun c => c.n = 1) e ops := by
    intro ops
    induction ops with
    | nil => intros; trivial
    | cons op ops ih =>
      intro e hwf hG
      refine ⟨?_, ih _ (fun o ho => hwf o (List.mem_cons_of_mem _ ho)) (fun c hc => hG c (List.mem_append_right _ hc))⟩
      have hop := hwf op (by simp)
      have hv : ∀ cfg' ∈ visited e op, cfg'.merge.crit = .never := fun c hc => hG c (List.mem_append_left _ hc)
      cases op with
      | fit rows labels => exact ⟨hop.1, hop.2, fun _ _ _ _ => rfl, hmc _ (hv _ (by simp [visited]))⟩
      | refine n data im srt => exact ⟨hop, fun _ _ _ _ => rfl, hmc _ (hv _ (by simp [visited]))⟩
      | recluster it extra perms stop =>
        intro j hj1 hjk
        apply hmc _ (hv _ _)
        simp only [visited, List.mem_map, List.mem_range]
        exact ⟨j - 1, by omega, by congr 2; omega⟩
      | setMerge c t th b => exact hop
      | setBf b => exact hop
      | setThr t => trivial
      | delInternal => trivial
      | reset => trivial
  have hinv : EInv F (fun c => c.n = 1) (run X (init cfg) ops) :=
    run_inv (refPolicy X) (refPolicy_valid X) F _ (fun _ h => h) ops _ (init_inv F _ cfg hbf)
      (hrun ops _ hwf hnever)
  intro c hc
  exact hinv.q c ((mem_of_coe_eq (sortedClus_coe _ hinv.ok) c).mp hc)

/-- acceptance implies the bound, for every criterion (the one-step fact C03 rests on; = C10) -/
theorem C03_accept_sound (m : MergeFn) (X : ExpTab) (t : Rat) (new old nom : Summary) (hn : 2 ≤ new.n)
    (h : accept m X t new old nom = true) : ∃ v, stat m.crit new = some v ∧ t ≤ v :=
  accept_sound m X t new old nom hn h

/-! Non-vacuity: the in-force list of a concrete history. -/
example : (inForce { E := fun _ => 1, off := 0 } (init { thr := 1/2, bf := 3, merge := { crit := .diameter } })
    [.fit [[true]] none, .setThr (1/4), .recluster 2 0 [] false]).length = 3 := by
  simp [inForce, visited]

/-! ## The same for the code itself (`BBGen.*` = this run's translation of `_merges.py`) -/

/-- code: whenever the criterion object built by `get_merge_accept_fn(name, tol)` accepts a merge at
threshold `t`, the statistic that criterion promises, of the merged summary, is at least `t` -/
theorem C03_code_accept_sound (expf : Rat → Rat) (c : Crit) (tol t : Rat) (new old nom : Summary) (w w' w'' : W)
    (hn : SumOk new) (ho : SumOk old) (hO : 1 ≤ old.n) (h2 : 2 ≤ new.n)
    (h : BBGen.MergeAcceptFunction_call expf (BBGen.get_merge_accept_fn expf (PV.str c.name) (PV.flt (some tol))) (PV.flt (some t))
      (PV.arr w new.ls) (PV.int new.n) (PV.arr w' old.ls) (PV.arr w'' nom.ls) (PV.int old.n) (PV.int nom.n)
        = PV.bool true) :
    ∃ v, stat c new = some v ∧ t ≤ v := by
  rw [gen_dispatch, getMergeFn_name, gen_accept expf ⟨c, tol⟩ t new old nom w w' w'' hn ho hO] at h
  have h' : accept ⟨c, tol⟩ (tabOf expf) t new old nom = true := by simpa using h
  exact C03_accept_sound ⟨c, tol⟩ _ t new old nom h2 h'


/-- code: a leaf cluster grows only through `merge_subcluster`, and whenever the translated `merge_subcluster` returns
`True` (first element of its result) the statistic the criterion promises, of the merged summary — which is what the
object then holds — is at least the threshold -/
theorem C03_code_merge_bound (expf : Rat → Rat) (c : Crit) (tol thr : Rat) (a b : Clu) (child scent schild : PV)
    (ha : CluOk a) (hb : CluOk b) (hlen : a.ls.length = b.ls.length) (hn : a.n + b.n < 2 ^ 53)
    (hnew : SumOk (a.mergedSummary b)) (hold : SumOk a.summary) (hO : 1 ≤ a.n) (h2 : 1 ≤ b.n)
    (rest : List PV)
    (h : BBGen._BFSubcluster_merge_subcluster expf (bufOf a) (PV.arr .u8 (pack a.cent)) child (PV.arr .big a.ids)
          (bufOf b) scent schild (PV.arr .big b.ids) (PV.flt (some thr)) (objOf expf ⟨c, tol⟩) = PV.bool true :: rest) :
    rest = stateOf (a.merge b) child ∧ ∃ v, stat c (a.mergedSummary b) = some v ∧ thr ≤ v := by
  rw [gen_merge_subcluster expf ⟨c, tol⟩ thr a b child scent schild ha hb hlen hn hnew hold hO] at h
  by_cases hacc : accept ⟨c, tol⟩ (tabOf expf) thr (a.mergedSummary b) a.summary b.summary = true
  · simp only [hacc, if_true, List.cons.injEq, true_and] at h
    exact ⟨h.symm, C03_accept_sound ⟨c, tol⟩ _ thr _ _ _ (by show 2 ≤ a.n + b.n; omega) hacc⟩
  · simp [hacc] at h

end BB
