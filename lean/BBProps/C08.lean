/-
C08 — the index stays a well-formed, height-balanced summary tree.

For every history consistent with a labelling `D` (C02's hypothesis), after every operation
— and, since `fit` is a fold of single insertions (`C04_chunking`), after every insertion —
the tree satisfies: (a) every node holds between 1 and its capacity entries and capacities
are ≥ 2; (b) all leaves are at the same depth; (c) every inner entry's count, per-bit sums
and member labels equal the totals of the node beneath it; (d) every node's search cache
equals its entries' centroids; (e) the leaf chain from which results are read lists exactly
the leaves reachable from the root, once each; (f) every entry at every level keeps its
counters in the narrowest width that holds its count.

Capacity: a node's capacity is the size of its own centroid buffer; a split gives the new
sibling the old node's capacity and only a new root takes the estimator's current
`branching_factor`, so after `set_merge(branching_factor=…)` nodes legitimately differ:
(a) is stated per node (and `≥ 2` for each).
-/
import BBProofs.OpsWF
import BBProofs.RefPolicy
import BBProofs.GenEq2
import BBProofs.GenEq8

namespace BB

/-- depths of the leaves of a tree of height `h`, the root being at depth `d` -/
def leafDepths : (h : Nat) → Tree h → Nat → List Nat
  | 0, _, d => [d]
  | h+1, (t : InnerN (Tree h)), d => t.ents.flatMap (fun e => leafDepths h e.2 (d + 1))

/-- (b) all leaves are at the same depth: the height of the tree -/
theorem C08_balanced : ∀ (h : Nat) (t : Tree h) (d : Nat), ∀ x ∈ leafDepths h t d, x = d + h
  | 0, _, d => by simp [leafDepths]
  | h+1, (t : InnerN (Tree h)), d => by
    intro x hx
    simp only [leafDepths, List.mem_flatMap] at hx
    obtain ⟨e, _, he⟩ := hx
    have := C08_balanced h e.2 (d + 1) x he
    omega

theorem allNodes_exact_width (D : Nat → Row) : ∀ (h : Nat) (t : Tree h),
    AllNodes (fun h' t' => ∀ c ∈ entClus h' t', Exact D c ∧ 1 ≤ c.n) h t →
    AllNodes (fun h' t' => ∀ c ∈ entClus h' t', c.w = minSafe c.n) h t →
    AllNodes (fun h' t' => ∀ c ∈ entClus h' t', Exact D c ∧ 1 ≤ c.n ∧ c.w = minSafe c.n) h t
  | 0, _, h1, h2 => fun c hc => ⟨(h1 c hc).1, (h1 c hc).2, h2 c hc⟩
  | k+1, (_ : InnerN (Tree k)), h1, h2 =>
    ⟨fun c hc => ⟨(h1.1 c hc).1, (h1.1 c hc).2, h2.1 c hc⟩,
      fun e he => allNodes_exact_width D k e.2 (h1.2 e he) (h2.2 e he)⟩

/-- the whole invariant along a history -/
theorem C08_invariant (X : ExpTab) (cfg : Cfg) (hbf : 2 ≤ cfg.bf) (F : Nat) (D : Nat → Row) (ops : List Op)
    (h : RunD (refPolicy X) F D (init cfg) ops) :
    EInv F (ExactN D) (run X (init cfg) ops) ∧ (run X (init cfg) ops).st.WFN D :=
  run_wfn (refPolicy X) (refPolicy_valid X) F D ops _ (init_inv F _ cfg hbf) trivial h

/-- **C08** (a), (c), (d), (f) at every node of the tree, and (e) for the leaf chain -/
theorem C08_wf (X : ExpTab) (cfg : Cfg) (hbf : 2 ≤ cfg.bf) (F : Nat) (D : Nat → Row) (ops : List Op)
    (h : RunD (refPolicy X) F D (init cfg) ops) :
    match (run X (init cfg) ops).st with
    | .full hh _ root chain _ =>
      AllNodes (fun h' t' => 1 ≤ nEnts h' t' ∧ nEnts h' t' ≤ capOf h' t' ∧ 2 ≤ capOf h' t') hh root ∧
      AllNodes (TrackOK D) hh root ∧
      AllNodes (fun h' t' => cacheOf h' t' = (entClus h' t').map (·.cent)) hh root ∧
      AllNodes (fun h' t' => ∀ c ∈ entClus h' t', Exact D c ∧ 1 ≤ c.n ∧ c.w = minSafe c.n) hh root ∧
      ((chain : Multiset Nat) = leafIdsM hh root ∧ chain.Nodup ∧
        (chain.filterMap (findLeaf (leavesOf hh root))).Perm (leavesOf hh root))
    | _ => True := by
  obtain ⟨hinv, hw⟩ := C08_invariant X cfg hbf F D ops h
  generalize run X (init cfg) ops = e at hinv hw
  obtain ⟨cfg', st, nf⟩ := e
  have hok := hinv.ok
  simp only at hok hw ⊢
  cases st with
  | uninit => trivial
  | leavesOnly F' ls => trivial
  | full hh F' root chain next =>
    obtain ⟨hwf, hne⟩ := hw
    obtain ⟨_, hc, hn, _⟩ := hok
    refine ⟨wft_all_bounds D hh root hwf hne, wft_all_track D hh root 0 hwf, wft_all_cache D hh root 0 hwf, ?_,
      hc, hn, chain_reads _ _ (by rw [hc, leavesOf_ids]) hn⟩
    exact allNodes_exact_width D hh root (wft_all_exact D hh root 0 hwf) (wft_all_width D hh root 0 hwf)

/-- one-step form: a single insertion of an exact unit into a well-formed state yields a
well-formed state (this is what makes the invariant hold after *every* insertion of a `fit`) -/
theorem C08_step (P : Policy) (hP : P.Valid) (D : Nat → Row) (bf : Nat) (hbf : 2 ≤ bf) (F : Nat)
    (st st' : TreeSt) (s : Clu) (hw : st.WFN D) (hs : Exact D s) (hn : 1 ≤ s.n)
    (hst : insertUnit P bf F st s = some st') : st'.WFN D :=
  insertUnit_wfn P hP D bf hbf F st st' s hw ⟨hs, hn⟩ hst

/-- when the branching factor is never changed, every node's capacity is the configured one -/
theorem C08_cap_split (P : Policy) (h : Nat) (t : Tree h) (next : Nat) :
    capOf h (splitNode P h t next).t1 = capOf h t ∧ capOf h (splitNode P h t next).t2 = capOf h t :=
  splitNode_cap P h t next

/-! Non-vacuity: the hypothesis is satisfiable by a concrete two-operation history. -/
example : RunD (refPolicy { E := fun _ => 1, off := 0 }) 2 (fun i => if i = 0 then [true, false] else [true, true])
    (init { thr := 1/2, bf := 2, merge := { crit := .diameter } })
    [.fit [[true, false], [true, true]] none, .setBf 3] := by
  refine ⟨⟨rfl, by simp, ?_⟩, by simp [OpD], trivial⟩
  intro _ i hi _
  match i, hi with
  | 0, _ => simp [init]
  | 1, _ => simp [init]


/-! ## The same for the code itself (`_BFSubcluster.update`, translated from `bitbirch.py` on this run) -/

/-- code: after `entry.update(sub)` — what `insert_bf_subcluster` does to the tracking entry on the way down — the
entry's counters are held in the narrowest unsigned width for its new count, its count and sums are the totals, and
its member list is the concatenation -/
theorem C08_code_update_width (expf : Rat → Rat) (D : Nat → Row) (c s : Clu) (child scent schild : PV)
    (hc : Exact D c) (hs : Exact D s) (hlen : c.ls.length = s.ls.length) (hn : c.n + s.n < 2 ^ 53) :
    ∃ c', BBGen._BFSubcluster_update expf (bufOf c) (PV.arr .u8 (pack c.cent)) child (PV.arr .big c.ids)
            (bufOf s) scent schild (PV.arr .big s.ids) = stateOf c' child
      ∧ c'.w = minSafe c'.n ∧ c'.n = c.n + s.n ∧ c'.ls = addLs c.ls s.ls ∧ c'.ids = c.ids ++ s.ids := by
  refine ⟨c.update s, gen_update expf c s child scent schild (cluOk_of_exact D c hc (by omega))
    (cluOk_of_exact D s hs (by omega)) hlen hn, (exact_update D c s hc hs).w_eq, ?_, ?_, rfl⟩
  · exact (update_unbounded D c s hc hs).2
  · exact (update_unbounded D c s hc hs).1

/-- code: `_BFNode.append_subcluster` keeps the per-node centroid cache aligned with the entry list — if the valid part of
`_packed_centroids_buf` lists the centroids of `_subclusters` (`cent` maps a sub-cluster to its centroid), it does so
after the call, with the new entry last -/
theorem C08_code_append_aligned (expf : Rat → Rat) (cent : Nat → Nat) (subs buf : List Nat) (log : PV) (h : Nat)
    (hlen : subs.length < buf.length) (hal : buf.take subs.length = subs.map cent) :
    let st := BBGen._BFNode_append_subcluster expf (PV.arr .big subs) (PV.arr .big buf) log (PV.int h) (PV.int (cent h))
    st.getD 0 PV.pynone = PV.arr .big (subs ++ [h]) ∧
    BBGen._BFNode_packed_centroids expf (st.getD 0 PV.pynone) (st.getD 1 PV.pynone) (st.getD 2 PV.pynone)
      = PV.arr .big ((subs ++ [h]).map cent) := by
  intro st
  refine ⟨?_, gen_node_append_aligned expf cent subs buf log h hlen hal⟩
  show (BBGen._BFNode_append_subcluster expf _ _ _ _ _).getD 0 PV.pynone = _
  rw [gen_node_append expf subs buf log h (cent h) hlen]; rfl

/-- code: `_BFNode.update_split_subclusters` — the entry that was split (at its position `i`) is replaced in place by the
first half and the second half is appended, entries and cache by the same list expressions as the model's insertion
(`ents.set i _ ++ [_]`, `cache.set i _ ++ [_]`), so the node gains exactly one entry, the other entries keep their
order, and the cache lists the centroids of the entries again -/
theorem C08_code_split_aligned (expf : Rat → Rat) (cent : Nat → Nat) (subs buf : List Nat) (log : PV) (h h1 h2 i : Nat)
    (hlen : subs.length < buf.length) (hi : subs.idxOf? h = some i) (hal : buf.take subs.length = subs.map cent) :
    let st := BBGen._BFNode_update_split_subclusters expf (PV.arr .big subs) (PV.arr .big buf) log (PV.int h) (PV.int h1) (PV.int h2)
                (PV.int (cent h1)) (PV.int (cent h2))
    st.getD 0 PV.pynone = PV.arr .big (subs.set i h1 ++ [h2]) ∧
    BBGen._BFNode_packed_centroids expf (st.getD 0 PV.pynone) (st.getD 1 PV.pynone) (st.getD 2 PV.pynone)
      = PV.arr .big ((subs.map cent).set i (cent h1) ++ [cent h2]) ∧
    (subs.map cent).set i (cent h1) ++ [cent h2] = (subs.set i h1 ++ [h2]).map cent ∧
    (subs.set i h1 ++ [h2]).length = subs.length + 1 :=
  let ⟨a, b, c⟩ := gen_node_split_aligned expf cent subs buf log h h1 h2 i hlen hi hal
  ⟨a, b, c, by simp⟩

/-- premises satisfiable: a node with entries 7, 8, 9 (centroid of `k` = `10 k`) in a buffer of five rows; entry 8 is split
into 20 and 21 -/
example : ([7, 8, 9] : List Nat).length < [70, 80, 90, 0, 0].length ∧ ([7, 8, 9] : List Nat).idxOf? 8 = some 1 ∧
    ([70, 80, 90, 0, 0] : List Nat).take 3 = [7, 8, 9].map (· * 10) ∧
    BBGen._BFNode_update_split_subclusters (fun x => x) (PV.arr .big [7, 8, 9]) (PV.arr .big [70, 80, 90, 0, 0]) (PV.arr .big [])
      (PV.int 8) (PV.int 20) (PV.int 21) (PV.int 200) (PV.int 210)
      = [PV.arr .big [7, 20, 9, 21], PV.arr .big [70, 200, 90, 210, 0], PV.arr .big []] := by
  decide +kernel

end BB
