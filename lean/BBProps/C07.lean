/-
C07 — conformance to the BitBIRCH insertion algorithm.

The model with `refPolicy` *is* the executable specification that the correspondence ties
to the code (S-TREE-OUT, sorted and leaf-order reports, all criteria, ties, zero rows; and
the three-way comparison with the bundled legacy implementations).  The theorems here state
that this specification has the clauses the property lists: descent to the most similar
centroid (first on ties), merge-iff-accepted at the leaf, split around the two seeds found
by the O(N) most-dissimilar search, every other entry following the strictly closer seed,
and both halves of a split non-empty.
-/
import BBProofs.RefPolicy
import BBProofs.GenEq3
import BBProofs.GenEq2

namespace BB

/-- at every level the fingerprint descends to the most Tanimoto-similar cached centroid, the
first one on ties -/
theorem C07_route (X : ExpTab) (cfg : Cfg) (cache : List Row) (c : Row) (hne : cache ≠ []) :
    (refPolicy X cfg).route cache c < cache.length ∧
    (∀ (j : Nat) (hj : j < cache.length),
      jtBits cache[j] c ≤ jtBits (cache[(refPolicy X cfg).route cache c]'(refRoute_lt X cfg cache c hne)) c) ∧
    (∀ (j : Nat) (hj : j < (refPolicy X cfg).route cache c),
      jtBits (cache[j]'(lt_trans hj (refRoute_lt X cfg cache c hne))) c <
        jtBits (cache[(refPolicy X cfg).route cache c]'(refRoute_lt X cfg cache c hne)) c) :=
  refRoute_spec X cfg cache c hne

/-- the inner-node step: the entry chosen by the route is the one descended into -/
theorem C07_descend (P : Policy) (h : Nat) (t : InnerN (Tree h)) (s : Clu) (next : Nat) (c : Clu) (child : Tree h)
    (hsome : t.ents[P.route t.cache s.cent]? = some (c, child)) (hno : (ins P h child s next).over = false) :
    (ins P (h + 1) t s next).node =
      ({ cap := t.cap, ents := t.ents.set (P.route t.cache s.cent) (c.update s, (ins P h child s next).node),
         cache := t.cache.set (P.route t.cache s.cent) (c.update s).cent } : InnerN (Tree h)) := by
  simp only [ins, hsome, hno]
  rfl

/-- at the leaf: merged into the routed cluster iff the criterion accepts, otherwise a new cluster -/
theorem C07_leaf (P : Policy) (l : LeafN) (s : Clu) (next : Nat) (c : Clu) (hne : l.subs.isEmpty = false)
    (hsome : l.subs[P.route l.cache s.cent]? = some c) :
    (P.accept c s = true → (insertLeaf P l s next).node.subs = l.subs.set (P.route l.cache s.cent) (c.merge s)) ∧
    (P.accept c s = false → (insertLeaf P l s next).node.subs = l.subs ++ [s]) := by
  constructor <;> intro ha <;> simp [insertLeaf, hne, hsome, ha]

/-- the merge decision of the code is the configured criterion applied to (merged, old, nominee) -/
theorem C07_accept (X : ExpTab) (cfg : Cfg) (c s : Clu) :
    (refPolicy X cfg).accept c s = accept cfg.merge X cfg.thr (c.mergedSummary s) c.summary s.summary := rfl

/-- the seeds of a split: first the entry least similar to the centroid of the node's centroids,
then the entry least similar to that one; the similarity vectors are those to exactly these rows -/
theorem C07_seeds (Y : List Row) (hne : Y ≠ []) :
    (mostDissimilar Y).1 < Y.length ∧ (mostDissimilar Y).2.1 < Y.length ∧
    (mostDissimilar Y).2.2.1 = Y.map (fun y => jtBits y (Y.getD (mostDissimilar Y).1 [])) ∧
    (mostDissimilar Y).2.2.2 = Y.map (fun y => jtBits y (Y.getD (mostDissimilar Y).2.1 [])) ∧
    (mostDissimilar Y).1 = argminFirst (Y.map (fun y => jtBits y (centroidFromSum (colSum Y) Y.length))) ∧
    (mostDissimilar Y).2.1 = argminFirst (mostDissimilar Y).2.2.1 :=
  mostDissimilar_spec' Y hne

/-- an entry moves to the new node iff it is the first seed or strictly closer to it than to the second -/
theorem C07_mask (cache : List Row) (j : Nat) (hj : j < cache.length) :
    (refMask cache)[j]'(by rw [refMask_length]; exact hj) =
      (decide (j = (mostDissimilar cache).1) ||
        decide (jtBits cache[j] (cache.getD (mostDissimilar cache).2.1 []) <
          jtBits cache[j] (cache.getD (mostDissimilar cache).1 []))) :=
  refMask_getElem cache j hj

/-- both halves of a split are non-empty, for any entries (duplicates, all-zero rows included) —
this settles the TODO in `_split_node` -/
theorem C07_split_nonempty (cache : List Row) (h2 : 2 ≤ cache.length) :
    (refMask cache)[(mostDissimilar cache).1]? = some true ∧
    ∃ j, j < cache.length ∧ j ≠ (mostDissimilar cache).1 ∧ (refMask cache)[j]? = some false :=
  refMask_both_sides cache h2

/-- the code's decisions form a valid policy, so every policy-generic theorem (C01, C02, C08, C09) applies -/
theorem C07_valid (X : ExpTab) (cfg : Cfg) : (refPolicy X cfg).Valid := refPolicy_valid X cfg

/-! Non-vacuity: a tie is resolved towards the first entry. -/
example : (refPolicy { E := fun _ => 1, off := 0 } { thr := 1/2, bf := 2, merge := { crit := .diameter } }).route
    [[true, false], [true, false], [false, true]] [true, false] = 0 := by decide +kernel


/-! ## The leaf step, for the code itself (`_BFSubcluster.merge_subcluster`, translated on this run) -/

/-- code: at a leaf the nominee is merged into the chosen entry **iff the reference policy's `accept` says so** (the
estimator's criterion object on the candidate summary formed in the narrowest width), in which case the entry becomes the
model's merged cluster; otherwise the entry is untouched (and the caller appends the nominee as a new entry) -/
theorem C07_code_leaf (expf : Rat → Rat) (cfg : Cfg) (c s : Clu) (child scent schild : PV)
    (hc : CluOk c) (hs : CluOk s) (hlen : c.ls.length = s.ls.length) (hn : c.n + s.n < 2 ^ 53)
    (hnew : SumOk (c.mergedSummary s)) (hold : SumOk c.summary) (hO : 1 ≤ c.n) :
    BBGen._BFSubcluster_merge_subcluster expf (bufOf c) (PV.arr .u8 (pack c.cent)) child (PV.arr .big c.ids)
        (bufOf s) scent schild (PV.arr .big s.ids) (PV.flt (some cfg.thr)) (objOf expf cfg.merge)
      = if (refPolicy (tabOf expf) cfg).accept c s = true
        then PV.bool true :: stateOf (c.merge s) child
        else PV.bool false :: stateOf c child :=
  gen_merge_subcluster expf cfg.merge cfg.thr c s child scent schild hc hs hlen hn hnew hold hO

end BB
