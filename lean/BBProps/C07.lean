/-
C07 — conformance to the BitBIRCH insertion algorithm.

The model with `refPolicy` *is* the executable specification that the correspondence ties
to the code (S-TREE-OUT, sorted and leaf-order reports, all criteria, ties, zero rows; and
the three-way comparison with the bundled legacy implementations).  The theorems here state
that this specification has the clauses the property lists: descent to the most similar
centroid (first on ties), merge-iff-accepted at the leaf, split around the two seeds found
by the O(N) most-dissimilar search, every other entry following the strictly closer seed,
and both halves of a split non-empty.
-/
import BBProofs.RefPolicy
import BBProofs.GenEq3
import BBProofs.GenEq2
import BBProofs.GenEq13

namespace BB

/-- at every level the fingerprint descends to the most Tanimoto-similar cached centroid, the
first one on ties -/
theorem C07_route (X : ExpTab) (cfg : Cfg) (cache : List Row) (c : Row) (hne : cache ≠ []) :
    (refPolicy X cfg).route cache c < cache.length ∧
    (∀ (j : Nat) (hj : j < cache.length),
      jtBits cache[j] c ≤ jtBits (cache[(refPolicy X cfg).route cache c]'(refRoute_lt X cfg cache c hne)) c) ∧
    (∀ (j : Nat) (hj : j < (refPolicy X cfg).route cache c),
      jtBits (cache[j]'(lt_trans hj (refRoute_lt X cfg cache c hne))) c <
        jtBits (cache[(refPolicy X cfg).route cache c]'(refRoute_lt X cfg cache c hne)) c) :=
  refRoute_spec X cfg cache c hne

/-- the inner-node step: the entry chosen by the route is the one descended into -/
theorem C07_descend (P : Policy) (h : Nat) (t : InnerN (Tree h)) (s : Clu) (next : Nat) (c : Clu) (child : Tree h)
    (hsome : t.ents[P.route t.cache s.cent]? = some (c, child)) (hno : (ins P h child s next).over = false) :
    (ins P (h + 1) t s next).node =
      ({ cap := t.cap, ents := t.ents.set (P.route t.cache s.cent) (c.update s, (ins P h child s next).node),
         cache := t.cache.set (P.route t.cache s.cent) (c.update s).cent } : InnerN (Tree h)) := by
  simp only [ins, hsome, hno]
  rfl

/-- at the leaf: merged into the routed cluster iff the criterion accepts, otherwise a new cluster -/
theorem C07_leaf (P : Policy) (l : LeafN) (s : Clu) (next : Nat) (c : Clu) (hne : l.subs.isEmpty = false)
    (hsome : l.subs[P.route l.cache s.cent]? = some c) :
    (P.accept c s = true → (insertLeaf P l s next).node.subs = l.subs.set (P.route l.cache s.cent) (c.merge s)) ∧
    (P.accept c s = false → (insertLeaf P l s next).node.subs = l.subs ++ [s]) := by
  constructor <;> intro ha <;> simp [insertLeaf, hne, hsome, ha]

/-- the merge decision of the code is the configured criterion applied to (merged, old, nominee) -/
theorem C07_accept (X : ExpTab) (cfg : Cfg) (c s : Clu) :
    (refPolicy X cfg).accept c s = accept cfg.merge X cfg.thr (c.mergedSummary s) c.summary s.summary := rfl

/-- the seeds of a split: first the entry least similar to the centroid of the node's centroids,
then the entry least similar to that one; the similarity vectors are those to exactly these rows -/
theorem C07_seeds (Y : List Row) (hne : Y ≠ []) :
    (mostDissimilar Y).1 < Y.length ∧ (mostDissimilar Y).2.1 < Y.length ∧
    (mostDissimilar Y).2.2.1 = Y.map (fun y => jtBits y (Y.getD (mostDissimilar Y).1 [])) ∧
    (mostDissimilar Y).2.2.2 = Y.map (fun y => jtBits y (Y.getD (mostDissimilar Y).2.1 [])) ∧
    (mostDissimilar Y).1 = argminFirst (Y.map (fun y => jtBits y (centroidFromSum (colSum Y) Y.length))) ∧
    (mostDissimilar Y).2.1 = argminFirst (mostDissimilar Y).2.2.1 :=
  mostDissimilar_spec' Y hne

/-- an entry moves to the new node iff it is the first seed or strictly closer to it than to the second -/
theorem C07_mask (cache : List Row) (j : Nat) (hj : j < cache.length) :
    (refMask cache)[j]'(by rw [refMask_length]; exact hj) =
      (decide (j = (mostDissimilar cache).1) ||
        decide (jtBits cache[j] (cache.getD (mostDissimilar cache).2.1 []) <
          jtBits cache[j] (cache.getD (mostDissimilar cache).1 []))) :=
  refMask_getElem cache j hj

/-- both halves of a split are non-empty, for any entries (duplicates, all-zero rows included) —
this settles the TODO in `_split_node` -/
theorem C07_split_nonempty (cache : List Row) (h2 : 2 ≤ cache.length) :
    (refMask cache)[(mostDissimilar cache).1]? = some true ∧
    ∃ j, j < cache.length ∧ j ≠ (mostDissimilar cache).1 ∧ (refMask cache)[j]? = some false :=
  refMask_both_sides cache h2

/-- the code's decisions form a valid policy, so every policy-generic theorem (C01, C02, C08, C09) applies -/
theorem C07_valid (X : ExpTab) (cfg : Cfg) : (refPolicy X cfg).Valid := refPolicy_valid X cfg

/-! Non-vacuity: a tie is resolved towards the first entry. -/
example : (refPolicy { E := fun _ => 1, off := 0 } { thr := 1/2, bf := 2, merge := { crit := .diameter } }).route
    [[true, false], [true, false], [false, true]] [true, false] = 0 := by decide +kernel


/-! ## The leaf step, for the code itself (`_BFSubcluster.merge_subcluster`, translated on this run) -/

/-- code: at a leaf the nominee is merged into the chosen entry **iff the reference policy's `accept` says so** (the
estimator's criterion object on the candidate summary formed in the narrowest width), in which case the entry becomes the
model's merged cluster; otherwise the entry is untouched (and the caller appends the nominee as a new entry) -/
theorem C07_code_leaf (expf : Rat → Rat) (cfg : Cfg) (c s : Clu) (child scent schild : PV)
    (hc : CluOk c) (hs : CluOk s) (hlen : c.ls.length = s.ls.length) (hn : c.n + s.n < 2 ^ 53)
    (hnew : SumOk (c.mergedSummary s)) (hold : SumOk c.summary) (hO : 1 ≤ c.n) :
    BBGen._BFSubcluster_merge_subcluster expf (bufOf c) (PV.arr .u8 (pack c.cent)) child (PV.arr .big c.ids)
        (bufOf s) scent schild (PV.arr .big s.ids) (PV.flt (some cfg.thr)) (objOf expf cfg.merge)
      = if (refPolicy (tabOf expf) cfg).accept c s = true
        then PV.bool true :: stateOf (c.merge s) child
        else PV.bool false :: stateOf c child :=
  gen_merge_subcluster expf cfg.merge cfg.thr c s child scent schild hc hs hlen hn hnew hold hO

/-! ### the code: the insertion step `_BFNode.insert_bf_subcluster` as translated from `/repo` on this run

The five clauses of the algorithm, for the code (entry list, centroid cache, what is asked of other objects — in this order —
and the "split me" flag).  Inputs: the routing decision, whether the closest entry has a child, the result of the merge
attempt / of the recursive call, the halves returned by `_split_node`; see `BBProofs/GenEq13.lean`. -/

/-- code (1): an empty node takes the nominee as its only entry -/
theorem C07_code_insert_empty (expf : Rat → Rat) (buf log : List Nat) (h c : Nat) (hb : 0 < buf.length)
    (fn thr x1 x2 x3 x4 x5 x6 x7 x8 x9 x10 x11 : PV) :
    BBGen._BFNode_insert_bf_subcluster expf (PV.arr .big []) (PV.arr .big buf) (PV.arr .big log) (PV.int h) fn thr
        x1 x2 x3 x4 x5 x6 x7 x8 x9 x10 x11 (PV.int c)
      = [PV.bool false, PV.arr .big [h], PV.arr .big (buf.set 0 c), PV.arr .big log] :=
  gen_insert_empty expf buf log h c hb fn thr x1 x2 x3 x4 x5 x6 x7 x8 x9 x10 x11

/-- code (2)/(3): at a leaf the closest entry is asked to merge (exactly one `merge_subcluster` call, on the entry the routing
chose); accepted → entries unchanged, its cache row refreshed, no split; refused → the nominee is appended, and the node asks
to be split iff it now holds more than `branching_factor` entries -/
theorem C07_code_insert_leaf (expf : Rat → Rat) (subs buf log : List Nat) (h c i cNew : Nat)
    (hne : subs ≠ []) (hi : i < subs.length) (hlen : subs.length < buf.length) (fn thr x1 x2 x5 x7 x8 x9 x10 x11 : PV) :
    BBGen._BFNode_insert_bf_subcluster expf (PV.arr .big subs) (PV.arr .big buf) (PV.arr .big log) (PV.int h) fn thr
        x1 x2 (PV.int i) PV.pynone (PV.int cNew) (PV.bool true) x7 x8 x9 x10 x11 (PV.int c)
      = [PV.bool false, PV.arr .big subs, PV.arr .big (buf.set i cNew), PV.arr .big (log ++ [1, subs[i], h])] ∧
    BBGen._BFNode_insert_bf_subcluster expf (PV.arr .big subs) (PV.arr .big buf) (PV.arr .big log) (PV.int h) fn thr
        x1 x2 (PV.int i) PV.pynone x5 (PV.bool false) x7 x8 x9 x10 x11 (PV.int c)
      = [PV.bool (decide (buf.length - 1 < subs.length + 1)), PV.arr .big (subs ++ [h]), PV.arr .big (buf.set subs.length c),
         PV.arr .big (log ++ [1, subs[i], h])] :=
  ⟨gen_insert_leaf_merge expf subs buf log h c i cNew hne hi hlen fn thr x1 x2 x7 x8 x9 x10 x11,
   gen_insert_leaf_append expf subs buf log h c i hne hi hlen fn thr x1 x2 x5 x7 x8 x9 x10 x11⟩

/-- code (4)/(5): at an inner node the nominee descends into the child of the closest entry (exactly one recursive call, on
that child); if the child must be split, `_split_node` is called on it and the tracking entry is replaced in place by the
first half, the second appended, and the node asks to be split iff it now holds more than `branching_factor` entries;
otherwise the tracking entry is updated with the nominee and its cache row refreshed -/
theorem C07_code_insert_inner (expf : Rat → Rat) (subs buf log : List Nat) (h i tok h1 h2 c1 c2 cUpd : Nat)
    (hne : subs ≠ []) (hi : i < subs.length) (hlen : subs.length < buf.length) (hfirst : subs.idxOf? subs[i] = some i)
    (fn thr x1 x5 x6 x7 x8 x9 x10 x11 xc : PV) :
    BBGen._BFNode_insert_bf_subcluster expf (PV.arr .big subs) (PV.arr .big buf) (PV.arr .big log) (PV.int h) fn thr
        x1 (PV.bool true) (PV.int i) (PV.int tok) x5 x6 (PV.int h1) (PV.int c1) (PV.int h2) (PV.int c2) x11 xc
      = [PV.bool (decide (buf.length - 1 < subs.length + 1)), PV.arr .big (subs.set i h1 ++ [h2]),
         PV.arr .big ((buf.set i c1).set subs.length c2), PV.arr .big (log ++ [2, tok, h, 3, tok])] ∧
    BBGen._BFNode_insert_bf_subcluster expf (PV.arr .big subs) (PV.arr .big buf) (PV.arr .big log) (PV.int h) fn thr
        (PV.int cUpd) (PV.bool false) (PV.int i) (PV.int tok) x5 x6 x7 x8 x9 x10 x11 xc
      = [PV.bool false, PV.arr .big subs, PV.arr .big (buf.set i cUpd), PV.arr .big (log ++ [2, tok, h, 4, subs[i], h])] :=
  ⟨gen_insert_inner_split expf subs buf log h i tok h1 h2 c1 c2 hne hi hlen hfirst fn thr x1 x5 x6 x11 xc,
   gen_insert_inner_update expf subs buf log h i tok cUpd hne hi hlen fn thr x5 x6 x7 x8 x9 x10 x11 xc⟩

/-- code vs model at a leaf: with the model's routing decision and acceptance as the inputs `closest_idx` and
`merge_was_successful`, and `cap = len(buf) - 1`, the code's flag and number of entries are those of `insertLeaf` -/
theorem C07_code_leaf_conforms (expf : Rat → Rat) (P : Policy) (l : LeafN) (s cl : Clu) (next : Nat)
    (subs buf log : List Nat) (h c cNew : Nat) (hne : subs ≠ []) (hlen : subs.length < buf.length)
    (hl : l.subs.length = subs.length) (hcap : l.cap = buf.length - 1)
    (hi : P.route l.cache s.cent < subs.length) (hc : l.subs[P.route l.cache s.cent]? = some cl)
    (fn thr x1 x2 x7 x8 x9 x10 x11 : PV) :
    let out := BBGen._BFNode_insert_bf_subcluster expf (PV.arr .big subs) (PV.arr .big buf) (PV.arr .big log) (PV.int h) fn thr
        x1 x2 (PV.int (P.route l.cache s.cent)) PV.pynone (PV.int cNew) (PV.bool (P.accept cl s)) x7 x8 x9 x10 x11 (PV.int c)
    out.getD 0 PV.pynone = PV.bool (insertLeaf P l s next).over ∧
    PV.len (out.getD 1 PV.pynone) = PV.int (insertLeaf P l s next).node.subs.length := by
  intro out
  have hlne : l.subs ≠ [] := by
    intro h0; rw [h0] at hl; simp at hl; exact hne (List.eq_nil_of_length_eq_zero hl.symm)
  obtain ⟨_, hacc, hrej⟩ := insertLeaf_cases P l s next
  cases ha : P.accept cl s with
  | true =>
    obtain ⟨h1, h2⟩ := hacc cl hlne hc ha
    have := gen_insert_leaf_merge expf subs buf log h c (P.route l.cache s.cent) cNew hne hi hlen fn thr x1 x2 x7 x8 x9 x10 x11
    simp only [out, ha, this, List.getD_cons_zero, List.getD_cons_succ, h1, h2, PV.len, hl]
    exact ⟨trivial, trivial⟩
  | false =>
    obtain ⟨h1, h2⟩ := hrej cl hlne hc ha
    have := gen_insert_leaf_append expf subs buf log h c (P.route l.cache s.cent) hne hi hlen fn thr x1 x2 (PV.int cNew) x7 x8 x9 x10 x11
    simp only [out, ha, this, List.getD_cons_zero, List.getD_cons_succ, h1, h2, PV.len, hl, hcap, List.length_append,
      List.length_singleton]
    exact ⟨trivial, by push_cast⟩

/-- code vs model at an inner node: with the model's routing decision and the over-full flag of the model's recursive insertion
as the inputs `closest_idx` and `child_must_be_split`, and `cap = len(buf) - 1`, the code's flag and number of entries are
those of `ins (h+1)` -/
theorem C07_code_inner_conforms (expf : Rat → Rat) (P : Policy) (h : Nat) (t : InnerN (Tree h)) (s c : Clu) (child : Tree h)
    (next : Nat) (subs buf log : List Nat) (hd tok h1 h2 c1 c2 cUpd : Nat)
    (hne : subs ≠ []) (hlen : subs.length < buf.length) (hl : t.ents.length = subs.length) (hcap : t.cap = buf.length - 1)
    (hi : P.route t.cache s.cent < subs.length) (hc : t.ents[P.route t.cache s.cent]? = some (c, child))
    (hfirst : subs.idxOf? subs[P.route t.cache s.cent] = some (P.route t.cache s.cent))
    (fn thr x5 x6 x11 xc : PV) :
    let out := BBGen._BFNode_insert_bf_subcluster expf (PV.arr .big subs) (PV.arr .big buf) (PV.arr .big log) (PV.int hd) fn thr
        (PV.int cUpd) (PV.bool (ins P h child s next).over) (PV.int (P.route t.cache s.cent)) (PV.int tok) x5 x6
        (PV.int h1) (PV.int c1) (PV.int h2) (PV.int c2) x11 xc
    out.getD 0 PV.pynone = PV.bool (ins P (h + 1) t s next).over ∧
    PV.len (out.getD 1 PV.pynone) = PV.int ((ins P (h + 1) t s next).node : InnerN (Tree h)).ents.length := by
  intro out
  obtain ⟨hov, hno⟩ := ins_cases P h t s next c child hc
  cases ho : (ins P h child s next).over with
  | true =>
    obtain ⟨e1, e2⟩ := hov ho
    have := gen_insert_inner_split expf subs buf log hd (P.route t.cache s.cent) tok h1 h2 c1 c2 hne hi hlen hfirst
      fn thr (PV.int cUpd) x5 x6 x11 xc
    simp only [out, ho, this, List.getD_cons_zero, List.getD_cons_succ, e1, e2, PV.len, hl, hcap, List.length_append,
      List.length_set, List.length_singleton]
    exact ⟨trivial, by push_cast⟩
  | false =>
    obtain ⟨e1, e2⟩ := hno ho
    have := gen_insert_inner_update expf subs buf log hd (P.route t.cache s.cent) tok cUpd hne hi hlen
      fn thr x5 x6 (PV.int h1) (PV.int c1) (PV.int h2) (PV.int c2) x11 xc
    simp only [out, ho, this, List.getD_cons_zero, List.getD_cons_succ, e1, e2, PV.len, hl]
    exact ⟨trivial, trivial⟩

end BB
