/-
C13 — the C++ extension computes what the NumPy fallback computes.

`BB.Cxx.*` (`BBModel/Kernels.lean`) transcribes `bblean/csrc/similarity.cpp` at byte / word level;
the theorems below state, on the common domain, extensional equality with the model of the NumPy
side (`BBModel/Bits.lean`, `BBModel/Similarity.lean`).  Where the C++ throws (`Fault.throws`) or
reads outside a buffer (`Fault.oob`) the restriction is part of the statement, and the
complementary statement says which fault it is.

Rows are lists of bytes `< 256`; a packed row is `pack r`; a packed array `X.map pack`.
Size hypotheses: `uint32_t` popcounts need fewer than 2^32 features per row, the `uint64_t`
column sums fewer than 2^64 rows; `centroid_from_sum`'s threshold is exact below 2^53 (see the
header of `BBModel/Kernels.lean`).
-/
import BBProofs.Kernels

namespace BB

/-! ### popcount -/

/-- both loops of `_popcount_2d` (uint64 words / bytes), any alignment flag: the byte-wise popcount
in a `uint32_t` -/
theorem C13_popcount_wrap (aligned : Bool) (rows : List (List Nat))
    (h : ∀ r ∈ rows, ∀ b ∈ r, b < 256) :
    Cxx.popcount2d aligned rows = rows.map (fun r => popBytes r % 2 ^ 32) :=
  Cxx.popcount2d_eq_mod aligned rows h

/-- **C13 (popcount)**: rows of fewer than 2^29 bytes -/
theorem C13_popcount (aligned : Bool) (rows : List (List Nat))
    (h : ∀ r ∈ rows, ∀ b ∈ r, b < 256) (hsz : ∀ r ∈ rows, 8 * r.length < 2 ^ 32) :
    Cxx.popcount2d aligned rows = rows.map popBytes :=
  Cxx.popcount2d_eq aligned rows h
    (fun r hr => lt_of_le_of_lt (Cxx.popBytes_le r) (hsz r hr))

/-! ### unpack -/

/-- **C13 (unpack)**, `n_features` omitted: the lookup-table copy is `np.unpackbits` -/
theorem C13_unpack (rows : List (List Nat)) (h : ∀ r ∈ rows, ∀ b ∈ r, b < 256) :
    Cxx.unpack2d rows none
      = .ok (rows.map (fun r => (unpack r (8 * r.length)).map (fun b => if b then 1 else 0))) :=
  Cxx.unpack2d_none rows h

/-- **C13 (unpack)**, `n_features = F`, a multiple of 8 within the row -/
theorem C13_unpack_some (rows : List (List Nat)) (h : ∀ r ∈ rows, ∀ b ∈ r, b < 256) (F : Nat)
    (hF : F % 8 = 0) (hlen : ∀ r ∈ rows, F ≤ 8 * r.length) :
    Cxx.unpack2d rows (some F)
      = .ok (rows.map (fun r => (unpack r F).map (fun b => if b then 1 else 0))) :=
  Cxx.unpack2d_some rows h F hF hlen

/-- the C++ throws for every other `n_features` (`np.unpackbits(count=F)` accepts them) -/
theorem C13_unpack_rejects (rows : List (List Nat)) (F : Nat) (hF : F % 8 ≠ 0) :
    Cxx.unpack2d rows (some F) = .error .throws :=
  Cxx.unpack2d_rejects rows F hF

/-- … and reads past the row for `n_features > 8 * n_bytes` (NumPy pads with zeros) -/
theorem C13_unpack_undefined (rows : List (List Nat)) (F : Nat) (hF : F % 8 = 0)
    (hlen : ∃ r ∈ rows, 8 * r.length < F) : Cxx.unpack2d rows (some F) = .error .oob :=
  Cxx.unpack2d_oob rows F hF hlen

/-! ### centroid -/

/-- **C13 (centroid)**, `pack = true`, whole bytes -/
theorem C13_centroid (ls : List Nat) (n : Nat) (hF : ls.length % 8 = 0) (hk : ∀ k ∈ ls, k ≤ n) :
    Cxx.centroidFromSum ls n true = .ok (pack (BB.centroidFromSum ls n)) :=
  Cxx.centroid_packed_eq ls n hF (fun hn k hkm => le_trans (hk k hkm) hn)

/-- **C13 (centroid)**, `pack = false`, every length, as 0/1 bytes -/
theorem C13_centroid_unpacked (ls : List Nat) (n : Nat) (hk : ∀ k ∈ ls, k ≤ n) :
    Cxx.centroidFromSum ls n false
      = .ok ((BB.centroidFromSum ls n).map (fun b => if b then 1 else 0)) :=
  Cxx.centroid_unpacked_eq ls n (fun hn k hkm => le_trans (hk k hkm) hn)

/-- the hypothesis on the sums is only needed for `n ≤ 1`, where the C++ copies the sums
(`static_cast<uint8_t>`) and NumPy tests them against zero -/
theorem C13_centroid' (ls : List Nat) (n : Nat) (hF : ls.length % 8 = 0)
    (hk : n ≤ 1 → ∀ k ∈ ls, k ≤ 1) :
    Cxx.centroidFromSum ls n true = .ok (pack (BB.centroidFromSum ls n)) :=
  Cxx.centroid_packed_eq ls n hF hk

/-- the packing loop reads past `centroid_unpacked` when the length is not a multiple of 8 -/
theorem C13_centroid_undefined (ls : List Nat) (n : Int) (hF : ls.length % 8 ≠ 0) :
    Cxx.centroidFromSum ls n true = .error .oob :=
  Cxx.centroid_packed_oob ls n hF

/-! ### iSIM -/

/-- **C13 (isim)**: same `uint64_t` wrap-arounds, same rounding points, for all sums and counts -/
theorem C13_isim (ls : List Nat) (n : Nat) : Cxx.isimFromSum ls n = BB.isimFromSum ls n :=
  Cxx.isim_eq ls n

/-! ### `_jt_sim_arr_vec_packed` -/

/-- **C13 (arrvec)**: word path or byte path, fewer than 2^32 features -/
theorem C13_arrvec (aligned : Bool) (X : List Row) (y : Row) (F : Nat)
    (hX : ∀ x ∈ X, x.length = F) (hy : y.length = F) (hF : F < 2 ^ 32) :
    Cxx.arrVec aligned (X.map pack) (pack y) = .ok (jtArrVec X y) :=
  Cxx.arrVecG_eq aligned aligned X y F hX hy hF

/-- the two buffers may be aligned independently -/
theorem C13_arrvec_mixed (aX aY : Bool) (X : List Row) (y : Row) (F : Nat)
    (hX : ∀ x ∈ X, x.length = F) (hy : y.length = F) (hF : F < 2 ^ 32) :
    Cxx.arrVecG aX aY (X.map pack) (pack y) = .ok (jtArrVec X y) :=
  Cxx.arrVecG_eq aX aY X y F hX hy hF

/-- the shape check -/
theorem C13_arrvec_rejects (aligned : Bool) (X : List (List Nat)) (y : List Nat)
    (h : ∃ x ∈ X, x.length ≠ y.length) : Cxx.arrVec aligned X y = .error .throws :=
  Cxx.precalc_throws aligned aligned X y _ h

/-! ### `jt_most_dissimilar_packed` -/

/-- **C13 (dissim)** with `n_features = F` -/
theorem C13_dissim (aligned : Bool) (Y : List Row) (F : Nat) (hF : F % 8 = 0)
    (hlen : ∀ r ∈ Y, r.length = F) (hne : Y ≠ []) (hF32 : F < 2 ^ 32) (hN : Y.length < 2 ^ 64) :
    Cxx.mostDissimilar aligned (Y.map pack) (some F) = .ok (BB.mostDissimilar Y) :=
  Cxx.mostDissimilarG_eq aligned aligned aligned aligned Y F hF hlen hne hF32 hN

/-- **C13 (dissim)** with `n_features` omitted -/
theorem C13_dissim_none (aligned : Bool) (Y : List Row) (F : Nat) (hF : F % 8 = 0)
    (hlen : ∀ r ∈ Y, r.length = F) (hne : Y ≠ []) (hF32 : F < 2 ^ 32) (hN : Y.length < 2 ^ 64) :
    Cxx.mostDissimilar aligned (Y.map pack) none = .ok (BB.mostDissimilar Y) :=
  Cxx.mostDissimilarG_none aligned aligned aligned aligned Y F hF hlen hne hF32 hN

/-- whatever the alignments of the input and of the three temporaries -/
theorem C13_dissim_mixed (aY aC a1 a2 : Bool) (Y : List Row) (F : Nat) (hF : F % 8 = 0)
    (hlen : ∀ r ∈ Y, r.length = F) (hne : Y ≠ []) (hF32 : F < 2 ^ 32) (hN : Y.length < 2 ^ 64) :
    Cxx.mostDissimilarG aY aC a1 a2 (Y.map pack) (some F) = .ok (BB.mostDissimilar Y) :=
  Cxx.mostDissimilarG_eq aY aC a1 a2 Y F hF hlen hne hF32 hN

/-- the C++ throws when `n_features` is not a multiple of 8 (the fallback does not) -/
theorem C13_dissim_rejects (aligned : Bool) (Y : List (List Nat)) (F : Nat) (hF : F % 8 ≠ 0) :
    Cxx.mostDissimilar aligned Y (some F) = .error .throws :=
  Cxx.mostDissimilarG_rejects aligned aligned aligned aligned Y F hF

/-! Non-vacuity: the definitions on concrete inputs. -/

example : Cxx.popcount2d true [[0xff, 0, 0xff, 0, 0xff, 0, 0xff, 0], [1, 2, 3, 4, 5, 6, 7, 8]]
    = [32, 13] := by decide +kernel

-- 64 bytes, aligned: the uint64 loop
example : Cxx.popcount1d true (List.replicate 64 0x81) = 128 ∧
    Cxx.popcount1d false (List.replicate 64 0x81) = 128 := by decide +kernel

example : Cxx.unpack2d [[0x81, 0x05]] none
    = .ok [[1, 0, 0, 0, 0, 0, 0, 1, 0, 0, 0, 0, 0, 1, 0, 1]] := by decide +kernel

example : Cxx.unpack2d [[0x81, 0x05]] (some 12) = .error .throws ∧
    Cxx.unpack2d [[0x81, 0x05]] (some 24) = .error .oob := by decide +kernel

example : Cxx.centroidFromSum [3, 0, 1, 2, 3, 0, 0, 1] 3 true = .ok [0x98] ∧
    Cxx.centroidFromSum [3, 0, 1] 3 true = .error .oob ∧
    Cxx.centroidFromSum [1, 0, 257] (-2) false = .ok [1, 0, 1] := by decide +kernel

example : Cxx.isimFromSum [3, 0, 1, 2] 3 = some (1 / 2) ∧ Cxx.isimFromSum [1, 0] 1 = none := by
  decide +kernel

example : Cxx.arrVec true [[0xff, 0x0f], [0x00, 0x01]] [0xf0, 0xff]
    = .ok [1 / 2, 6004799503160661 / 72057594037927936] := by decide +kernel

-- `n_features` smaller than the row: the centroid is shorter than the rows and the shape check of
-- `jt_sim_packed_precalc_cardinalities` throws; only `n_features = 8 * n_bytes` goes through
example : Cxx.mostDissimilar false [[0xff, 0x0f], [0x00, 0x01], [0xf0, 0xff]] (some 8)
    = .error .throws := by decide +kernel

example : (Cxx.mostDissimilar false [[0xff, 0x0f], [0x00, 0x01], [0xf0, 0xff]] none).toOption.map
    (fun r => (r.1, r.2.1)) = some (1, 0) := by decide +kernel

end BB
