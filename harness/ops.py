"""Operation histories: generation, printing for the model, execution on the real code."""
from __future__ import annotations

import os
import random as _pyrandom
from fractions import Fraction

from core import np, show_rat, show_nats, row_hex, err_name

import bblean.bitbirch as bbmod
from bblean.bitbirch import BitBirch
from bblean._merges import get_merge_accept_fn

CRITS = ["radius", "diameter", "tolerance-diameter", "tolerance-radius", "tolerance-legacy", "never-merge"]
FS_SMALL = list(range(1, 25))
FS_BIG = [63, 64, 65, 100, 256]
THRS = [0.0, 0.1, 0.3, 0.5, 0.65, 0.9, 1.0]
BFS = [2, 3, 4, 5, 10, 50]
TOLS = [0.0, 0.05, 0.5, 5.0]
INT_DTYPES = ["uint8", "int8", "int16", "uint16", "int32", "int64", "uint64", "bool"]


# ------------------------------------------------------------------- data generation
def gen_rows(rng: _pyrandom.Random, F: int, n: int) -> list[list[int]]:
    """mostly prototype + bit-flip noise (this is what produces accepted merges, multi-member
    clusters and deep trees), plus duplicates, all-zero / all-one rows and Bernoulli rows"""
    kind = rng.choice(["proto", "proto", "proto", "bern", "dups", "mixed"])
    rows: list[list[int]] = []
    n_proto = rng.randint(1, 4)
    protos = [[1 if rng.random() < rng.choice([0.2, 0.5, 0.8]) else 0 for _ in range(F)] for _ in range(n_proto)]
    for _ in range(n):
        k = kind if kind != "mixed" else rng.choice(["proto", "bern", "dups", "special"])
        if k == "proto":
            p = rng.choice(protos)
            flip = rng.choice([0.0, 0.05, 0.1, 0.25])
            rows.append([b ^ (1 if rng.random() < flip else 0) for b in p])
        elif k == "bern":
            d = rng.choice([0.05, 0.2, 0.5, 0.9])
            rows.append([1 if rng.random() < d else 0 for _ in range(F)])
        elif k == "dups":
            rows.append(list(rng.choice(rows)) if rows and rng.random() < 0.7 else list(rng.choice(protos)))
        else:
            rows.append([0] * F if rng.random() < 0.5 else [1] * F)
    return rows


def gen_cfg(rng: _pyrandom.Random, objects: float = 0.0) -> dict:
    thr = rng.choice(THRS + [rng.random()])
    crit = rng.choice(CRITS)
    tol = rng.choice([None] + TOLS)
    if rng.random() < objects:
        crit = ("obj", crit, rng.choice(TOLS))
        if rng.random() < 0.7:
            tol = None
    elif rng.random() < objects:
        crit = None
    return {"thr": thr, "bf": rng.choice([2, 2, 3, 3, 4, 5, 10, 50]), "crit": crit, "tol": tol}


def gen_history(rng: _pyrandom.Random, max_ops: int = 12, max_rows: int = 40, malformed: float = 0.1,
                allow: tuple = ("fit", "refine", "recluster", "setmerge", "setthr", "setbf", "delint", "reset"),
                objects: float = 0.0, weights: dict | None = None, big: float = 0.06, force: str | None = None) -> dict:
    """`force`: "wide" = a node with more than 255 entries, "big" = a cluster beyond 255 members in the first fit
    (every run starts with a few of each, so that the width boundaries are reached whatever the seed)"""
    F = rng.choice(FS_SMALL * 3 + FS_BIG)
    cfg = gen_cfg(rng, objects)
    n_ops = rng.randint(1, max_ops)
    ops: list[dict] = []
    wide = force == "wide" or (force is None and rng.random() < big / 2)
    if force == "offset":
        # the first batch is labelled base..base+n-1 (fit(X, reinsert_indices=...)); later operations re-insert / refine
        # with initial_mol = base; no further fits (implicit labels would continue at num_fitted)
        base = rng.choice([1, 7, 100, 1000])
        rows = gen_rows(rng, F, rng.randint(5, max_rows))
        ops.append({"op": "fit", "F": F, "rows": rows, "form": rng.choice(FORMS), "dtype": "uint8", "labels": list(range(base, base + len(rows)))})
        for _ in range(rng.randint(1, 5)):
            nm = rng.choice(["refine", "refine", "recluster", "setmerge", "setthr", "delint"])
            if nm == "refine":
                ops.append({"op": "refine", "n": rng.choice([1, 1, 2, 3]), "xform": rng.choice(["array", "path", "paths"]), "packed": rng.random() < 0.5})
            elif nm == "recluster":
                ops.append({"op": "recluster", "it": rng.choice([1, 2]), "extra": rng.choice([0.0, 0.05, -0.1]), "shuffle": rng.random() < 0.5,
                            "seed": rng.randint(0, 10**6), "stop": False})
            elif nm == "setmerge":
                ops.append({"op": "setmerge", "crit": rng.choice(CRITS), "tol": rng.choice([None] + TOLS), "thr": rng.choice([None] + THRS), "bf": None})
            elif nm == "setthr":
                ops.append({"op": "setthr", "thr": rng.choice(THRS)})
            else:
                ops.append({"op": "delint"})
        return {"cfg": cfg, "F": F, "ops": ops}
    if force == "big2":
        # two families of more than 255 members each; then the threshold is raised and the largest cluster is broken up:
        # its members stay singletons next to a cluster that keeps a wide counter
        F = max(F, 64)
        cfg["thr"], cfg["crit"], cfg["tol"] = 0.5, rng.choice(["diameter", "radius"]), None
        pa = [1 if rng.random() < 0.5 else 0 for _ in range(F)]
        pa[0], pa[1] = 1, 0
        pb = [1 - b for b in pa]          # the complement: the two families never merge (half-complements often did)
        rows = [[b ^ (1 if rng.random() < 0.02 else 0) for b in pa] for _ in range(rng.choice([300, 320]))] \
            + [[b ^ (1 if rng.random() < 0.02 else 0) for b in pb] for _ in range(rng.choice([270, 290]))]
        rng.shuffle(rows)
        ops = [{"op": "fit", "F": F, "rows": rows, "form": rng.choice(FORMS), "dtype": "uint8"},
               {"op": "setthr", "thr": rng.choice([0.95, 1.0])},
               {"op": "refine", "n": 1, "xform": rng.choice(["array", "path", "paths"]), "packed": rng.random() < 0.5}]
        if "recluster" in allow and rng.random() < 0.5:
            ops.append({"op": "recluster", "it": 1, "extra": 0.0, "shuffle": rng.random() < 0.5, "seed": rng.randint(0, 10**6), "stop": False})
        return {"cfg": cfg, "F": F, "ops": ops}
    if wide:
        # a node with more than 255 entries: branching factor 300, near-duplicates that do not merge
        # (64 bits and more, 4-12 % of the bits flipped: practically all rows distinct, so the root really reaches 301 entries)
        F = max(F, 64)
        cfg["bf"] = 300
        cfg["thr"] = rng.choice([0.95, 1.0])
        cfg["crit"] = rng.choice(["diameter", "radius"])
    weights = weights or {"fit": 6, "refine": 2, "recluster": 2, "setmerge": 2, "setthr": 1, "setbf": 1, "delint": 1, "reset": 1}
    names = [k for k in weights if k in allow]
    for i in range(n_ops):
        name = "fit" if i == 0 else rng.choices(names, [weights[k] for k in names])[0]
        if name == "fit":
            if wide and i == 0:
                proto = [1 if rng.random() < 0.7 else 0 for _ in range(F)]
                fl = rng.choice([0.04, 0.08, 0.12])
                rows = [[b ^ (1 if rng.random() < fl else 0) for b in proto] for _ in range(rng.choice([310, 330]))]
            elif (force in ("big", "big255") and i == 0) or rng.random() < big:
                # a large tight group: clusters that cross 127/128 and 255/256 members (width promotion), or sit exactly
                # at the top of a counter width (255) when they are exported and re-imported
                proto = [1 if rng.random() < 0.6 else 0 for _ in range(F)]
                nbig = 255 if force == "big255" else rng.choice([130, 200, 255, 257, 300])
                fl = 0.0 if force == "big255" else rng.choice([0.0, 0.01, 0.03])
                rows = [[b ^ (1 if rng.random() < fl else 0) for b in proto] for _ in range(nbig)]
            else:
                rows = gen_rows(rng, F, rng.randint(1, max_rows))
            op = {"op": "fit", "F": F, "rows": rows, "form": rng.choice(FORMS), "dtype": rng.choice(INT_DTYPES)}
            if i > 0 and rng.random() < malformed / 2 and all(o["op"] != "reset" for o in ops):
                # a whole input with another feature count: refused, nothing changes
                F2 = F + rng.choice([1, 8, 16]) if F < 9 or rng.random() < 0.5 else F - 8
                op = {"op": "fit", "F": F2, "rows": gen_rows(rng, F2, rng.randint(1, 5)), "form": rng.choice(FORMS), "dtype": "uint8"}
            elif rng.random() < malformed and len(rows) >= 2:
                k = rng.randint(1, len(rows) - 1)
                badF = F + rng.choice([8, 9, 16]) if rng.random() < 0.5 or F <= 8 else F - 8
                rows[k] = [rng.randint(0, 1) for _ in range(badF)]
                op["form"] = "unpacked-list"
                op["dtype"] = "uint8"
            if "labels" not in op and rng.random() < 0.04 and all(len(r) == F for r in op["rows"]):
                # explicit labels (fit(X, reinsert_indices=...)): arbitrary numbers, duplicates allowed
                kind = rng.choice(["shifted", "duplicates", "arbitrary"])
                n_ = len(op["rows"])
                if kind == "shifted":
                    b_ = rng.choice([3, 50, 1000])
                    op["labels"] = list(range(b_, b_ + n_))
                elif kind == "duplicates":
                    op["labels"] = [rng.randrange(max(1, n_ // 2)) for _ in range(n_)]
                else:
                    op["labels"] = [rng.randrange(5000) for _ in range(n_)]
            ops.append(op)
        elif name == "refine":
            ops.append({"op": "refine", "n": rng.choice([0, 1, 1, 2, 3, 4]) if rng.random() > 0.05 else -1,
                        "xform": rng.choice(["array", "array", "path", "paths", "paths"]), "packed": rng.random() < 0.5})
        elif name == "recluster":
            ops.append({"op": "recluster", "it": rng.choice([1, 1, 2, 3]),
                        "extra": rng.choice([0.0, 0.0, 0.05, -0.05, 0.1, -0.2]),
                        "shuffle": rng.random() < 0.5, "seed": rng.randint(0, 10**6),
                        "stop": rng.random() < 0.3})
        elif name == "setmerge":
            sub = {"crit": None, "tol": None, "thr": None, "bf": None}
            if rng.random() < 0.6:
                c = rng.choice(CRITS)
                sub["crit"] = c if rng.random() < 0.8 else ("obj", c, rng.choice(TOLS))
            if rng.random() < 0.4:
                sub["tol"] = rng.choice(TOLS)
            if rng.random() < 0.4:
                sub["thr"] = rng.choice(THRS)
            if rng.random() < 0.3:
                sub["bf"] = rng.choice(BFS)
            if sub["bf"] is None and sub["thr"] is None and rng.random() < 0.3 and not isinstance(sub["crit"], tuple) \
                    and (sub["crit"] is None) != (sub["tol"] is None):
                sub["via"] = "attr"     # est.merge_criterion = name / est.tolerance = x
            ops.append({"op": "setmerge", **sub})
        elif name == "setthr":
            ops.append({"op": "setthr", "thr": rng.choice(THRS)})
        elif name == "setbf":
            ops.append({"op": "setbf", "bf": rng.choice(BFS)})
        else:
            ops.append({"op": name})
    if force == "big255":
        cfg["thr"] = min(cfg["thr"], 0.65)
        if cfg["crit"] == "never-merge":
            cfg["crit"] = "diameter"
        follow = rng.choice([[{"op": "recluster", "it": 1, "extra": 0.0, "shuffle": False, "seed": 0, "stop": False}],
                             [{"op": "refine", "n": 0, "xform": "array", "packed": False}],
                             [{"op": "fit", "F": F, "rows": [[1 - b for b in ops[0]["rows"][0]] for _ in range(257)], "form": "unpacked-array", "dtype": "uint8"},
                              {"op": "refine", "n": 1, "xform": "array", "packed": False}]])
        ops[1:1] = follow
    return {"cfg": cfg, "F": F, "ops": ops}


FORMS = ["packed-array", "unpacked-array", "packed-list", "unpacked-list"]


# ------------------------------------------------------------- printing for the model
def crit_arg(c) -> str:
    if c is None:
        return "-"
    if isinstance(c, (tuple, list)):
        return f"obj:{c[1]}:{show_rat(c[2])}"
    return c


def opt_rat(x) -> str:
    return "-" if x is None else show_rat(x)


def new_line(cfg: dict) -> str:
    return f"NEW thr={show_rat(cfg['thr'])} bf={cfg['bf']} crit={crit_arg(cfg['crit'])} tol={opt_rat(cfg['tol'])}"


def rows_arg(F: int, rows) -> str:
    if not rows:
        return "-"
    parts = []
    for r in rows:
        h = row_hex(r)
        parts.append(h if len(r) == F else f"{h}:{len(r)}")
    return ",".join(parts)


class Session:
    """Runs one history on the real estimator and on the model, op by op."""

    def __init__(self, driver, cfg: dict, F: int):
        self.d = driver
        self.cfg = cfg
        self.F = F
        self.data: list[list[int]] = []  # rows by label since the last reset
        self.tree = None
        self.labels_contiguous = True
        self.base = 0   # label of data[0]: non-zero when the first fit carried the labels base..base+n-1
        self.labels: list[int] = []   # every label inserted since the last reset (implicit or explicit), in insertion order

    # -- construction ---------------------------------------------------------------
    def construct(self) -> tuple[str, str]:
        m = self.d.cmd(new_line(self.cfg))
        try:
            c = self.cfg["crit"]
            kw = {}
            if c is None:
                pass
            elif isinstance(c, (tuple, list)):
                fn = get_merge_accept_fn(c[1], c[2])
                kw["merge_criterion"] = fn
            elif c is not None:
                kw["merge_criterion"] = c
            if self.cfg["tol"] is not None:
                kw["tolerance"] = self.cfg["tol"]
            self.tree = BitBirch(threshold=self.cfg["thr"], branching_factor=self.cfg["bf"], **kw)
            i = "ok"
        except Exception as e:  # noqa: BLE001
            i = err_name(e)
        return m, i

    # -- one op -----------------------------------------------------------------------
    def model_line(self, op: dict, perms=None) -> str:
        k = op["op"]
        if k == "fit":
            lab = "-" if op.get("labels") is None else show_nats(",", op["labels"])
            return f"FIT F={op['F']} labels={lab} rows={rows_arg(op['F'], op['rows'])}"
        if k == "refine":
            srt = 1 if op.get("xform") == "paths" else 0
            return f"REFINE n={op['n']} im={self.base} F={self.F} srt={srt} rows={rows_arg(self.F, self.data)}"
        if k == "recluster":
            ps = "-"
            if perms:
                ps = ";".join(show_nats(".", p) if p is not None else "_" for p in perms)
            return (f"RECLUSTER it={op['it']} extra={show_rat(op['extra'])} stop={1 if op['stop'] else 0} perms={ps}")
        if k == "setmerge":
            bf = "-" if op["bf"] is None else str(op["bf"])
            return f"SETMERGE crit={crit_arg(op['crit'])} tol={opt_rat(op['tol'])} thr={opt_rat(op['thr'])} bf={bf}"
        if k == "setthr":
            return f"SETTHR thr={show_rat(op['thr'])}"
        if k == "setbf":
            return f"SETBF bf={op['bf']}"
        if k == "delint":
            return "DELINT"
        if k == "reset":
            return "RESET"
        raise ValueError(k)

    def impl_input(self, op: dict):
        rows, form, F = op["rows"], op.get("form", "unpacked-array"), op["F"]
        dt = np.dtype(op.get("dtype", "uint8"))
        ragged = any(len(r) != F for r in rows)
        if ragged:
            return [np.asarray(r, dtype=np.uint8) for r in rows], dict(input_is_packed=False)
        if form == "packed-array":
            X = np.packbits(np.asarray(rows, dtype=np.uint8).reshape(len(rows), F), axis=1)
            return X, dict(input_is_packed=True, n_features=F)
        if form == "packed-list":
            return [np.packbits(np.asarray(r, dtype=np.uint8)) for r in rows], dict(input_is_packed=True, n_features=F)
        if form == "unpacked-list":
            return [np.asarray(r).astype(dt) for r in rows], dict(input_is_packed=False)
        return np.asarray(rows).reshape(len(rows), F).astype(dt), dict(input_is_packed=False)

    def run_impl(self, op: dict) -> tuple[str, list | None]:
        """returns (answer, shuffle permutations applied by the real code)"""
        k = op["op"]
        t = self.tree
        perms: list | None = None
        before = t.num_fitted_fps
        try:
            if k == "fit":
                X, kw = self.impl_input(op)
                if op.get("labels") is not None:
                    kw["reinsert_indices"] = list(op["labels"])
                t.fit(X, **kw)
            elif k == "refine":
                X = np.asarray(self.data, dtype=np.uint8).reshape(len(self.data), self.F)
                packed = bool(op.get("packed")) and self.F % 8 == 0   # refine unpacks with the tree's feature count
                if packed:
                    X = np.packbits(X, axis=1)
                xform = op.get("xform", "array")
                if xform == "array" or len(X) == 0:
                    t.refine_inplace(X, initial_mol=self.base, input_is_packed=packed, n_largest=op["n"])
                else:
                    import tempfile, shutil
                    from pathlib import Path
                    tmp = Path(tempfile.mkdtemp(prefix="bbverif-ref-", dir=os.environ.get("VERIF_SCRATCH", "/var/tmp")))
                    try:
                        if xform == "path":
                            np.save(tmp / "all.npy", X)
                            arg = tmp / "all.npy"
                        else:
                            cut = max(1, len(X) // 3)
                            parts = [X[:cut], X[cut:cut], X[cut:]]   # includes an empty file
                            arg = []
                            for i, part in enumerate(parts):
                                np.save(tmp / f"p{i}.npy", part)
                                arg.append(tmp / f"p{i}.npy")
                        t.refine_inplace(arg, initial_mol=self.base, input_is_packed=packed, n_largest=op["n"])
                    finally:
                        shutil.rmtree(tmp, ignore_errors=True)
            elif k == "recluster":
                perms = []
                real = bbmod.random

                class _Proxy:
                    @staticmethod
                    def seed(s):
                        real.seed(s)

                    @staticmethod
                    def shuffle(lst):
                        idx = list(range(len(lst)))
                        real.shuffle(idx)
                        perms.append(idx)
                        lst[:] = [lst[i] for i in idx]

                bbmod.random = _Proxy
                try:
                    t.recluster_inplace(iterations=op["it"], extra_threshold=op["extra"], shuffle=op["shuffle"],
                                        seed=op["seed"], stop_early=op["stop"])
                finally:
                    bbmod.random = real
            elif k == "setmerge":
                c = op["crit"]
                if isinstance(c, (tuple, list)):
                    c = get_merge_accept_fn(c[1], c[2])
                if op.get("via") == "attr":
                    if c is not None:
                        t.merge_criterion = c
                    else:
                        t.tolerance = op["tol"]
                else:
                    t.set_merge(c, tolerance=op["tol"], threshold=op["thr"], branching_factor=op["bf"])
            elif k == "setthr":
                t.threshold = op["thr"]
            elif k == "setbf":
                t.branching_factor = op["bf"]
            elif k == "delint":
                t.delete_internal_nodes()
            elif k == "reset":
                t.reset()
            ans = "ok"
        except Exception as e:  # noqa: BLE001
            ans = err_name(e)
        # bookkeeping of the data the estimator holds (labels are 0.. since the last reset)
        if k == "fit":
            added_ = max(t.num_fitted_fps - before, 0)
            self.labels.extend(list(op["labels"])[:added_] if op.get("labels") is not None else range(before, before + added_))
        elif k == "reset":
            self.labels = []
        if k == "fit" and op.get("labels") is None:
            added = t.num_fitted_fps - before
            self.data.extend(op["rows"][:max(added, 0)])
            if self.base != 0 and added > 0:
                self.labels_contiguous = False     # implicit labels continue at num_fitted, not at base + n
        elif k == "fit":
            lab = list(op["labels"])
            if not self.data and before == 0 and ans == "ok" and lab == list(range(lab[0], lab[0] + len(op["rows"]))):
                self.base = lab[0]                 # an offset labelling of the first batch: base .. base+n-1
                self.data.extend(op["rows"])
            else:
                self.labels_contiguous = False
        elif k == "reset":
            self.data = []
            self.labels_contiguous = True
            self.base = 0
        return ans, perms

    def step(self, op: dict) -> tuple[str, str, str]:
        """execute on both sides; returns (model line, model answer, impl answer)"""
        if op["op"] == "recluster":
            ians, perms = self.run_impl(op)
            line = self.model_line(op, perms if op["shuffle"] else None)
            # when not shuffling the model gets no permutations
            if op["shuffle"] and perms is not None:
                # pad: iterations the real code did not reach have no permutation
                pass
            mans = self.d.cmd(line)
            return line, mans, ians
        line = self.model_line(op)
        mans = self.d.cmd(line)
        ians, _ = self.run_impl(op)
        return line, mans, ians


def total_rows(hist: dict) -> int:
    return sum(len(o["rows"]) for o in hist["ops"] if o["op"] == "fit")
