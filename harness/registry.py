"""property id -> suites, evidence rule, trusted base additions"""
PROPS: dict = {}
