"""property id -> suites, evidence rule, trusted base additions"""
from suites import props_tree

RULE_TREE = ("random operation histories (weighted words over fit / refine / recluster / set_merge / setters / "
             "delete_internal_nodes / reset / malformed fit; feature counts 1..24, 63, 64, 65, 100, 256; prototype+noise, "
             "duplicate, all-zero/all-one and Bernoulli rows; all six criteria) executed on the real estimator and on the "
             "Lean model, compared after every operation; non-trivial = distinct history whose final state has at least one "
             "multi-member cluster (and, for structure suites, a tree of height >= 1)")

PROPS: dict = {
    "C01": {"suites": [props_tree.c01], "rule": RULE_TREE},
    "C02": {"suites": [props_tree.c02], "rule": RULE_TREE},
    "C03": {"suites": [props_tree.c03], "rule": RULE_TREE},
    "C09": {"suites": [props_tree.c09], "rule": RULE_TREE},
}
