"""property id -> suites, evidence rule, trusted base additions"""
from suites import props_tree, prims, monitor, legacy, c04, sk, multiround, cxx, cli, files, metrics, gen

RULE_TREE = ("random operation histories (weighted words over fit / refine / recluster / set_merge / setters / "
             "delete_internal_nodes / reset / malformed fit; feature counts 1..24, 63, 64, 65, 100, 256; prototype+noise, "
             "duplicate, all-zero/all-one and Bernoulli rows; all six criteria; every run starts with forced structured histories: nodes "
             "with > 255 entries, clusters beyond 255 members, clusters of exactly 255 members that are exported and re-imported, offset "
             "labellings refined with initial_mol = base; 4% of the fits carry explicit labels incl. duplicates; whole inputs with a wrong "
             "feature count; configuration through set_merge and through the attribute setters) executed on the real estimator and on the "
             "Lean model, compared after every operation; non-trivial = distinct history whose final state has at least one "
             "multi-member cluster (and, for structure suites, a tree of height >= 1)")

RULE_PRIM = ("real bblean.similarity / _py_similarity / pack-unpack functions vs the Lean model on the same inputs, compared as exact "
             "rationals and bit strings: bounded-exhaustive small inputs + random inputs (feature counts 1..4096, byte counts "
             "multiple / not multiple of 8, densities incl. empty and full rows, misaligned buffers, counts up to n*sum(k) < 2^63); "
             "non-trivial = distinct input with n >= 2 and a set bit")
RULE_MERGE = ("generated (old, nominee) summaries of consistent sums and counts (old sizes straddling 1, 255/256, 1000), all six "
              "criteria x thresholds x tolerances, each call made twice, calls shuffled across instances; compared with the model's "
              "accept; non-trivial = per-criterion min(#accepted, #rejected)")

RULE_MON = ("the real monitor update step and the real get_peak_memory_gib run as gated threads on real files; every merge of the "
            "writer's file effects (open, flush, replace) with the steps (exists, open, read) of up to two reader runs for 1-3 samples "
            "(sampled in quick tier), plus random longer schedules; reader results compared with the model's run for the same schedule; "
            "non-trivial = distinct schedule in which a reader returns a value")

RULE_MR = ("generated multi-round workflows (1-5 input files of unequal sizes incl. 1-row files, F in {8,13,16,64}, packed/unpacked, bin sizes "
           "1/2/3/10, 0-3 midsection rounds, refinement none/split/full, split-after-midsection, all six criteria per stage, threshold "
           "changes of both signs, centroids on/off, cleanup on/off) run through the real run_multiround_bitbirch with an in-process pool "
           "executing each round's tasks in a random order, compared FILE BY FILE (every round-* buffer/index file, clusters, centroids) "
           "with the model's directory; re-run under other orders / real pools / shuffled listings; non-trivial = distinct successful "
           "workflow with more than one input file")

RULE_GEN = ("; S-GEN: every function of the generated model lean/BBGen/Gen.lean (tools/py2lean.py's translation of the Python "
            "sources) executed through the driver and the real Python function on the same arguments (arrays in all four unsigned "
            "dtypes, consistent and inconsistent sums, counts straddling 1/2, 127/128, 255/256, 65535/65536, 2^32; np.exp recorded from "
            "the real call), results compared as typed literals (type AND exact value)")

PROPS: dict = {
    "C01": {"suites": [props_tree.c01, gen.suite_gen({"subcluster"})], "rule": RULE_TREE + RULE_GEN},
    "C02": {"suites": [props_tree.c02, gen.suite_gen({"min_safe_uint", "centroid", "subcluster"}), multiround.suite_c05],
            "rule": RULE_TREE + RULE_GEN + "; S-MR: summaries rebuilt from saved buffers in the multi-round workflow (" + RULE_MR + ")"},
    "C03": {"suites": [props_tree.c03, gen.suite_gen({"merges"})], "rule": RULE_TREE + RULE_GEN},
    "C04": {"suites": [c04.suite_repr, c04.suite_pages, gen.suite_gen({"pages"})],
            "rule": "data sets x 5-10 random (representation, dtype, chunking) variants {packed,unpacked} x {ndarray,list,Path,str path} x 8 "
                    "integer dtypes x 0-3 cuts, every variant compared with ONE model run and with each other; every 10th (5th) data set "
                    "also in a fresh subprocess; S-PAGES: .npy files on both sides of 2 MiB of rows fitted by path with "
                    "_madvise_dontneed wrapped; non-trivial = data set with a multi-member cluster / file with at least one release" + RULE_GEN,
            "proof_modules": ["BBProps.C04", "BBProofs.Chunking", "BBProofs.MemPages"]},
    "C05": {"suites": [multiround.suite_c05, gen.suite_gen({"subcluster", "ranges"})], "rule": RULE_MR + "; S-GEN ranges stream: multiround._get_files_range_tuples on real .npy files (0-105 files, row counts incl. 0) vs the generated loop", "proof_modules": ["BBProps.C05", "BBProofs.Multiround", "BBProofs.Names", "BBProofs.GenEq12", "BBProofs.GenEq6", "BBProofs.GenEq", "BBGen.Gen", "BBModel.PyNum"]},
    "C06": {"suites": [multiround.suite_c06, gen.suite_gen({"ranges"})], "rule": RULE_MR + "; S-GEN ranges stream: multiround._get_files_range_tuples on real .npy files (0-105 files, row counts incl. 0) vs the generated loop", "proof_modules": ["BBProps.C06", "BBProofs.Multiround", "BBProofs.Names", "BBProofs.GenEq12", "BBProofs.GenEq", "BBGen.Gen", "BBModel.PyNum"]},
    "C07": {"suites": [props_tree.c07, legacy.suite_legacy, gen.suite_gen({"insert", "node"})],
            "proof_modules": ["BBProps.C07", "BBProofs.RefPolicy", "BBProofs.GenEq13", "BBProofs.GenEq8", "BBProofs.GenEq3", "BBProofs.GenEq2", "BBProofs.GenEq", "BBGen.Gen", "BBModel.PyNum"],
            "rule": RULE_TREE + RULE_GEN + "; insert stream: the real _BFNode.insert_bf_subcluster of ONE node of a real tree (root, inner, leaf, "
            "fresh empty node), with np.argmax, merge_subcluster, the recursive call, _split_node and update recorded at depth 0, vs the "
            "generated insertion step: flag, entry handles, cache tokens, call log; S-LEGACY: bblean vs _legacy.bb_uint8 vs "
            "_legacy.bb_int64 on 2048-bit inputs (radius, diameter, tolerance-legacy), non-trivial = case with a multi-member cluster"},
    "C08": {"suites": [props_tree.c08, gen.suite_gen({"subcluster", "node", "insert"})], "rule": RULE_TREE + RULE_GEN + "; node stream: real _BFNode objects with "
            "real sub-clusters (handles = identities, buffer rows = centroid tokens, garbage in the unused rows): append_subcluster, "
            "update_split_subclusters (also of an absent entry) and the packed_centroids view vs the generated functions"},
    "C09": {"suites": [props_tree.c09], "rule": RULE_TREE},
    "C10": {"suites": [prims.suite_merge, gen.suite_gen({"merges", "dispatch"})], "rule": RULE_MERGE + RULE_GEN,
            "proof_modules": ["BBProps.C10", "BBProofs.GenEq", "BBProofs.GenEq2", "BBProofs.GenEq3", "BBProofs.GenEq4", "BBProofs.GenEq5", "BBProofs.PyNum", "BBGen.Gen", "BBModel.PyNum"]},
    "C11": {"suites": [prims.suite_isim, gen.suite_gen({"isim"})], "rule": RULE_PRIM + RULE_GEN},
    "C12": {"suites": [prims.suite_bits, gen.suite_gen({"centroid"})], "rule": RULE_PRIM + RULE_GEN},
    "C13": {"suites": [cxx.suite_kernels, cxx.suite_transcription, cxx.suite_end_to_end],
            "rule": "csrc/similarity.cpp compiled out of tree on every run (g++ -O2 -std=c++17 against the pybind11 stand-in of harness/cxx) "
                    "and called through ctypes: every kernel on 8-byte-aligned and misaligned buffers, row widths 1..256 bytes on both sides "
                    "of the 64-byte fast path, counts up to 2^33, compared bit for bit (i) with the NumPy fallback and (ii) with the Lean "
                    "transcription of the C++ (driver command CXX); end to end: the estimator with the compiled kernels re-bound where the "
                    "import switch binds them vs the fallback run; non-trivial = every kernel case / run with a multi-member cluster and a split",
            "proof_modules": ["BBProps.C13", "BBProofs.Kernels", "BBModel.Kernels"]},
    "C14": {"suites": [multiround.suite_c14, gen.suite_gen({"dump"})], "rule": RULE_MR + "; crash stream: for each small configuration a crash is injected before (or "
            "half-way through) every file effect of bblean.multiround (buffer-file write, pickle dump, rename, unlink), in a directory "
            "that already holds the outputs of an earlier run; then re-run to completion with same / changed-threshold / fewer-files "
            "parameters and compare with a fresh-directory run; stale-directory stream: earlier run with more files and cleanup off"
            "; S-GEN dump stream: multiround._pickle_dump_atomic for real (real files, existing final file / stale temporary file), its "
            "effects recorded at the module's own open / pickle / os names vs the generated function, and the directory afterwards",
            "proof_modules": ["BBProps.C14", "BBProofs.Multiround", "BBProofs.Names", "BBProofs.GenEq9", "BBProofs.GenEq", "BBGen.Gen", "BBModel.PyNum"]},
    "C17": {"proof_modules": ["BBProps.C17", "BBProofs.GenEq", "BBProofs.GenEq2", "BBProofs.GenEq3", "BBProofs.GenEq4", "BBProofs.GenEq5", "BBProofs.PyNum", "BBGen.Gen", "BBModel.PyNum"],
            "suites": [props_tree.c17, props_tree.c17_objects, gen.suite_gen({"config", "dispatch"})], "rule": RULE_TREE + "; configuration stream: constructor with names / merge-function objects / "
            "no criterion x tolerance given or not, set_merge with every subset of its arguments, setters, reset; S-C17-OBJECTS: estimators "
            "holding merge-function objects the model does not distinguish (adaptive=False, other n_max/decay, a user subclass inheriting a "
            "built-in name), then set_merge by that name vs the constructor route (attributes and clustering of a probe set); a chosen "
            "tolerance followed through set_merge calls without tolerance via never-merge / objects / other tolerance criteria"},
    "C18": {"suites": [sk.suite_sk, sk.suite_assign, props_tree.c01, gen.suite_gen({"sklearn"})],
            "rule": "generated data sets (several clusters of distinct and equal sizes) fitted through bblean.sklearn.BitBirch (packed) / "
                    "UnpackedBitBirch, compute_labels on/off, fit vs fit_predict; labels_, subcluster_centers_, predict and transform "
                    "(exact rationals) of non-empty query rows compared with the model; the assignment vector is also part of the "
                    "V_out comparison of every tree history; one or two calls (fit / partial_fit / fit_predict in any combination) on one "
                    "estimator, the centroids compared with the majority vote of the current clusters; S-ASSIGN: explicit reinsert labels "
                    "(permutation, duplicate id, out-of-range id, re-insertion without reset): refused or the ranks, vs the model; "
                    "non-trivial = fit with more than one cluster; S-GEN sklearn stream: fit / partial_fit / fit_predict of the real wrapper, one or "
                    "two calls on one estimator, compute_labels on / off, base-class fit and get_assignments recorded in call order, vs the "
                    "generated methods (returned value, labels_, centres, centre labels, call log)",
            "proof_modules": ["BBProps.C18", "BBProofs.Assign", "BBProofs.GenEq14", "BBProofs.GenEq", "BBGen.Gen", "BBModel.PyNum"]},
    "C20": {"suites": [monitor.suite_monitor, gen.suite_gen({"monitor", "reader"})], "rule": RULE_MON + "; S-GEN monitor stream: bblean._memory.monitor_rss_process "
            "run for real (real files) with a scripted process tree, clock and sleep; every iteration's file effects recorded at the module's "
            "own open / os / time names vs the generated loop body, and the peak file after every iteration = the complete running maximum; "
            "reader stream: get_peak_memory_gib on real files (absent, complete reprs of floats, their proper prefixes, empty, odd literals) vs "
            "the generated function, effects and value or ValueError",
            "proof_modules": ["BBProps.C20", "BBProofs.Monitor", "BBModel.Monitor", "BBProofs.GenEq7", "BBProofs.GenEq10", "BBProofs.GenEq", "BBProofs.PyNum", "BBGen.Gen", "BBModel.PyNum"]},
    "C15": {"suites": [cli.suite_run, cli.suite_multiround, gen.suite_gen({"validate"})],
            "rule": "`bb run` through typer's CliRunner in-process (and as a subprocess of /venv/bin/bb when the memory monitor is on) over random "
                    "combinations of: six merge x six refine criteria, refine-num 0-2, refine-rounds none/0-2, recluster rounds 0-2 with and "
                    "without shuffle (the shuffles the command draws are captured and replayed), threshold changes of both signs, "
                    "save-tree, save-centroids, overwrite x pre-populated output directory, copy vs symlink, packed vs unpacked, "
                    "n-features (F in {8,13,16,64}), single file vs directory of 1-3 files; the model's plan for the options (driver command "
                    "CLIPLAN) is executed call by call on the Python API and on the model; clusters.pkl, centroids, the reloaded bitbirch.pkl, "
                    "config.json, input-fps/ and the directory listing are compared; `bb multiround` over the option space of S-MR plus "
                    "processes 1-3, overwrite, save-tree, cleanup, compared file by file with the API in a fresh directory and with the model; "
                    "non-trivial = run whose result has a multi-member cluster / more than one input file",
            "proof_modules": ["BBProps.C15", "BBProofs.Cli", "BBProofs.CliMulti", "BBModel.Cli"]},
    "C16": {"suites": [files.suite_smiles, files.suite_split_merge, files.suite_fileseq, files.suite_info, gen.suite_gen({"numbatch"})],
            "rule": "S-GEN numbatch stream: parse_num_per_batch compiled from the source text of the imported cli module vs the generated function "
                    "(totals up to 2^53 - 1, parts / max per file / neither / both / zero); `bb fps-from-smiles` as a subprocess on generated SMILES lists (1-40 entries over 1-2 .smi files, invalid entries of three "
                    "kinds at random positions, --num-parts / --max-fps-per-file / neither, 1-8 processes, pack/no-pack, uint8/uint16/int64, "
                    "three fingerprint kinds, skip-invalid on/off) compared with the in-process fps_from_smiles on the same strings and "
                    "with the model's part names, part sizes and invalid indices; fps-split / fps-merge / fps-shuffle through the real "
                    "commands on arrays of 1-257 rows x 2-101 parts / max 1-1000 per file x three dtypes x dotted names; the real "
                    "_get_fingerprints_from_file_seq / _FingerprintFileSequence on 1-5 files incl. empty ones with sorted, repeated, empty, "
                    "unsorted and out-of-range index lists vs the model and vs indexing the concatenation; fps-info on files and directories "
                    "of valid and invalid shapes and dtypes; non-trivial = run with more than one SMILES / part / file",
            "proof_modules": ["BBProps.C16", "BBProofs.FileSeq", "BBModel.FileSeq", "BBProofs.GenEq11", "BBProofs.GenEq", "BBProofs.Fl", "BBGen.Gen", "BBModel.PyNum"]},
    "C19": {"suites": [metrics.suite_indices, metrics.suite_analysis, metrics.suite_summary],
            "rule": "CHI / DBI / Dunn of the real bblean.metrics on generated clusterings (1-6 clusters of 1-9 rows, F in {5,8,13,16,64}, incl. "
                    "singleton clusters, duplicate rows and equal centroids) for packed and unpacked input and for three random permutations "
                    "of clusters and rows each, compared with each other and with the model's exact values (rel 1e-9); cluster_analysis on "
                    "generated partitions for every provider {ndarray, int64 ndarray, file, sequence of 2-4 files incl. empty ones} x "
                    "{packed, unpacked} x top x min_size x assume_sorted, all fields compared with each other, with directly computed values "
                    "and with the model (iSIM as exact rationals); `bb summary` on packed/unpacked x 1/2 files compared with each other "
                    "and with the API; non-trivial = case with more than one (selected) cluster",
            "proof_modules": ["BBProps.C19", "BBProofs.Metrics", "BBModel.Metrics"]},
}
