"""The common check driver: proof gate, correspondence suites, oracle search, verdict,
evidence.  See DESIGN.md §2.2 for the verdict table."""
from __future__ import annotations

import hashlib
import json
import os
import re
import subprocess
import sys
import time
import traceback
from pathlib import Path

VERIF = Path(__file__).resolve().parent.parent
# evidence and replays go to /verif unless an evaluation of seeded changes redirects them (tools/seed_matrix.py)
OUT = Path(os.environ.get("VERIF_OUT", VERIF))
LEAN = VERIF / "lean"
ALLOWED_AXIOMS = {"propext", "Classical.choice", "Quot.sound"}
FORBIDDEN = [r"\bsorry\b", r"\badmit\b", r"^\s*axiom\s", r"native_decide", r"bv_decide",
             r"implemented_by", r"\bunsafe\s", r"maxHeartbeats\s+0\b", r"\bextern\b"]

TRUSTED_BASE = [
    "Lean 4.33.0 kernel; axioms allowed: propext, Classical.choice, Quot.sound (checked by #print axioms on every property theorem, every run)",
    "the hand-written model lean/BBModel/* as a reading of /repo (tied by the correspondence suites of this run, not verified)",
    "the correspondence harness (harness/*.py), its generators and canonical printing",
    "CPython, NumPy (IEEE-754 double arithmetic correctly rounded; np.exp antitone, checked on the values used)",
    "for the *_code_* theorems (C02 C03 C04 C10 C11 C12): the translator tools/py2lean.py (purely syntactic Python-AST -> Lean, "
    "refuses what it does not know) and the Python/NumPy value algebra lean/BBModel/PyNum.lean (NEP-50 promotion, unsigned wrap, "
    "float64 rounding, NaN comparisons; x/0 is outside the model), both validated against the interpreter by the S-GEN suite; "
    "np.exp is an uninterpreted function there (monotone where a theorem says so)",
]


# ------------------------------------------------------------------------- proof gate
def strip_comments(src: str) -> str:
    src = re.sub(r"/-.*?-/", lambda m: "\n" * m.group(0).count("\n"), src, flags=re.S)
    return re.sub(r"--.*", "", src)


def scan_sources() -> list[str]:
    hits = []
    for p in sorted(LEAN.rglob("*.lean")):
        if ".lake" in p.parts:
            continue
        txt = strip_comments(p.read_text())
        for i, line in enumerate(txt.splitlines(), 1):
            for pat in FORBIDDEN:
                if re.search(pat, line):
                    hits.append(f"{p.relative_to(VERIF)}:{i}: {line.strip()[:120]}")
    return hits


def lake_build(timeout: int = 3000) -> tuple[bool, str]:
    r = subprocess.run(["lake", "build"], cwd=LEAN, capture_output=True, text=True, timeout=timeout)
    return r.returncode == 0, (r.stdout + r.stderr)[-6000:]


def theorems_of(prop: str) -> list[str]:
    f = LEAN / "BBProps" / f"{prop}.lean"
    if not f.exists():
        return []
    txt = strip_comments(f.read_text())
    return re.findall(rf"^theorem\s+({prop}_[A-Za-z0-9_']+)", txt, flags=re.M)


def audit(prop: str, timeout: int = 900) -> dict:
    """re-elaborate the property file and read `#print axioms` for each of its theorems"""
    names = theorems_of(prop)
    f = LEAN / "BBProps" / f"{prop}.lean"
    res = {"theorems": names, "clean": [], "dirty": {}, "missing": [], "ok": False, "log": ""}
    if not names:
        res["log"] = "no property theorems found"
        return res
    probe = LEAN / ".lake" / f"audit_{prop}_{os.getpid()}.lean"
    probe.parent.mkdir(exist_ok=True)
    nss = sorted(set(re.findall(r"^namespace\s+([A-Za-z0-9_.]+)", strip_comments(f.read_text()), flags=re.M)) | {"BB"})
    body = f"import BBProps.{prop}\n" + "".join(f"open {ns}\n" for ns in nss) + "".join(f"#print axioms {n}\n" for n in names)
    probe.write_text(body)
    try:
        r = subprocess.run(["lake", "env", "lean", str(probe)], cwd=LEAN, capture_output=True, text=True, timeout=timeout)
    finally:
        probe.unlink(missing_ok=True)
    out = r.stdout + r.stderr
    res["log"] = out[-4000:]
    # parse "'name' depends on axioms: [a, b]" / "'name' does not depend on any axioms"
    found = {}
    for m in re.finditer(r"'(\S+)' depends on axioms: \[([^\]]*)\]", out, flags=re.S):
        found[m.group(1).split(".")[-1]] = {a.strip() for a in m.group(2).replace("\n", " ").split(",") if a.strip()}
    for m in re.finditer(r"'(\S+)' does not depend on any axioms", out):
        found[m.group(1).split(".")[-1]] = set()
    for n in names:
        if n not in found:
            res["missing"].append(n)
        elif found[n] <= ALLOWED_AXIOMS:
            res["clean"].append(n)
        else:
            res["dirty"][n] = sorted(found[n] - ALLOWED_AXIOMS)
    res["ok"] = r.returncode == 0 and not res["missing"] and not res["dirty"]
    return res


# ------------------------------------------------------------- generated model (translator) gate
# properties whose theorem files contain `..._code_...` theorems about BBGen (the translation of the Python sources)
GEN_PROPS = {"C01", "C02", "C03", "C04", "C05", "C06", "C07", "C08", "C10", "C11", "C12", "C14", "C15", "C16", "C17", "C18", "C20"}


def _lean_env() -> dict:
    r = subprocess.run(["lake", "env", "printenv", "LEAN_PATH"], cwd=LEAN, capture_output=True, text=True, timeout=120)
    env = dict(os.environ)
    env["LEAN_PATH"] = r.stdout.strip()
    return env


def _enclosing_decl(src: str, line: int) -> str:
    name = "?"
    for i, l in enumerate(src.splitlines(), 1):
        if i > line:
            break
        m = re.match(r"^(?:theorem|def|lemma|example)\s+([A-Za-z0-9_.']+)", l)
        if m:
            name = m.group(1)
    return name


def gen_gate(prop: str, timeout: int = 1500) -> dict:
    """Re-translate the Python sources of the repository under test (tools/py2lean.py).  If the text equals the
    committed lean/BBGen/Gen.lean, the theorems built by `lake build` are about this very code.  Otherwise the
    regenerated model, BBProofs/GenEq.lean and the property file are re-checked in a scratch directory
    (nothing in /verif is rewritten): a harmless rewrite of the Python code passes, anything else names the
    theorem that no longer closes."""
    repo = os.environ.get("BBLEAN_REPO", "/repo")
    res = {"applies": True, "ok": False, "same_as_committed": False, "stage": "translate", "log": "", "broken": []}
    r = subprocess.run([sys.executable, str(VERIF / "tools" / "py2lean.py"), "--repo", repo],
                       capture_output=True, text=True, timeout=120)
    if r.returncode != 0:
        res["log"] = r.stderr[-2000:]
        res["broken"] = ["translator: " + r.stderr.strip().splitlines()[-1][:300] if r.stderr.strip() else "translator failed"]
        return res
    committed = (LEAN / "BBGen" / "Gen.lean").read_text()
    if r.stdout == committed:
        res.update(ok=True, same_as_committed=True, stage="identical")
        return res
    import shutil
    import tempfile
    scratch = Path(tempfile.mkdtemp(prefix="bbgen-", dir=os.environ.get("VERIF_SCRATCH", "/var/tmp")))
    try:
        env = _lean_env()
        env["LEAN_PATH"] = f"{scratch}:{env['LEAN_PATH']}"
        (scratch / "BBGen").mkdir()
        (scratch / "BBScratch").mkdir()
        (scratch / "BBGen" / "Gen.lean").write_text(r.stdout)
        # Lean resolves a module in the first search-path entry that has its top-level directory, so the scratch copies of
        # the proof files live under another package name (BBScratch) with their mutual imports rewritten; BBGen (one module)
        # is shadowed as a whole, everything else comes from the built project
        all_mods = ["GenEq", "GenEq2", "GenEq3", "GenEq4", "GenEq5", "GenEq6"]
        # only the equality files the property file (transitively) imports: a break in the theorems about one translated
        # function does not raise an alarm for properties that do not rest on it
        imp_of = {m: set(re.findall(r"^import BBProofs\.(GenEq\d?)\s*$", (LEAN / "BBProofs" / f"{m}.lean").read_text(), flags=re.M))
                  for m in all_mods if (LEAN / "BBProofs" / f"{m}.lean").exists()}
        need, stack = set(), list(re.findall(r"^import BBProofs\.(GenEq\d?)\s*$", (LEAN / "BBProps" / f"{prop}.lean").read_text(), flags=re.M))
        while stack:
            m_ = stack.pop()
            if m_ not in need:
                need.add(m_)
                stack += list(imp_of.get(m_, ()))
        chain_mods = [m for m in all_mods if m in need]

        def rewritten(txt: str) -> str:
            for mname in chain_mods:
                txt = re.sub(rf"^import BBProofs\.{mname}\s*$", f"import BBScratch.{mname}", txt, flags=re.M)
            return txt
        chain = [("BBGen/Gen.lean", None)]
        for mname in chain_mods:
            if (LEAN / "BBProofs" / f"{mname}.lean").exists():
                chain.append((f"BBScratch/{mname}.lean", LEAN / "BBProofs" / f"{mname}.lean"))
        chain.append((f"BBScratch/{prop}.lean", LEAN / "BBProps" / f"{prop}.lean"))
        for rel, srcp in chain:
            res["stage"] = rel if srcp is None else str(srcp.relative_to(LEAN))
            local = scratch / rel
            if srcp is not None:
                local.write_text(rewritten(srcp.read_text()))
            out = scratch / rel.replace(".lean", ".olean")
            rr = subprocess.run(["lean", "-o", str(out), str(local)], cwd=scratch, env=env, capture_output=True, text=True,
                                timeout=timeout)
            if rr.returncode != 0:
                txt = rr.stdout + rr.stderr
                res["log"] = txt[-3000:]
                src = local.read_text()
                lines = sorted({int(m.group(1)) for m in re.finditer(r":(\d+):\d+: error", txt)})
                res["broken"] = sorted({f"{res['stage']}: {_enclosing_decl(src, ln)}" for ln in lines}) or [res["stage"]]
                return res
        # axioms of the property theorems against the regenerated model
        names = theorems_of(prop)
        probe = scratch / "audit.lean"
        nss = sorted(set(re.findall(r"^namespace\s+([A-Za-z0-9_.]+)", strip_comments((LEAN / "BBProps" / f"{prop}.lean").read_text()),
                                    flags=re.M)) | {"BB"})
        probe.write_text(f"import BBScratch.{prop}\n" + "".join(f"open {ns}\n" for ns in nss) + "".join(f"#print axioms {n}\n" for n in names))
        rr = subprocess.run(["lean", str(probe)], cwd=scratch, env=env, capture_output=True, text=True, timeout=timeout)
        out = rr.stdout + rr.stderr
        bad = []
        for m in re.finditer(r"'(\S+)' depends on axioms: \[([^\]]*)\]", out, flags=re.S):
            ax = {a.strip() for a in m.group(2).replace("\n", " ").split(",") if a.strip()}
            if not ax <= ALLOWED_AXIOMS:
                bad.append(f"{m.group(1)}: {sorted(ax - ALLOWED_AXIOMS)}")
        if rr.returncode != 0 or bad:
            res["stage"] = "axioms"
            res["log"] = out[-2000:]
            res["broken"] = bad or ["axiom audit failed"]
            return res
        res.update(ok=True, stage="re-checked against the regenerated model")
        return res
    finally:
        shutil.rmtree(scratch, ignore_errors=True)


def leanchecker(mods: list[str], timeout: int = 1800) -> tuple[bool, str]:
    r = subprocess.run(["lake", "env", "leanchecker", *mods], cwd=LEAN, capture_output=True, text=True, timeout=timeout)
    return r.returncode == 0, (r.stdout + r.stderr)[-2000:]


# --------------------------------------------------------------------- known findings
def load_known() -> list[dict]:
    f = VERIF / "known_findings.json"
    return json.loads(f.read_text()) if f.exists() else []


def is_known(prop: str, signature: str) -> dict | None:
    for k in load_known():
        if k.get("property") == prop and k.get("status") == "known" and k.get("signature") == signature:
            return k
    return None


# ----------------------------------------------------------------------------- verdict
class SuiteResult:
    def __init__(self, name: str):
        self.name = name
        self.evaluations = 0
        self.nontrivial = 0
        self.samples: list = []
        self.counters: dict = {}
        self.disagreement: dict | None = None  # model vs code
        self.failures: list[dict] = []  # property violated on the real code: {signature, what, case}
        self.traces = 0
        self.notes: list[str] = []

    def to_json(self) -> dict:
        return {"name": self.name, "evaluations": self.evaluations, "nontrivial": self.nontrivial,
                "counters": self.counters, "traces_validated_against_impl": self.traces, "notes": self.notes}


def write_replay(prop: str, payload: dict) -> str:
    d = OUT / "replays"
    d.mkdir(exist_ok=True, parents=True)
    blob = json.dumps(payload, sort_keys=True, default=str)
    h = hashlib.sha1(blob.encode()).hexdigest()[:12]
    p = d / f"{prop}-{h}.json"
    p.write_text(json.dumps(payload, indent=1, default=str))
    return str(p.relative_to(OUT))


def main(prop: str, suites, level_rule: str, extra_trusted: list[str] | None = None, assumptions: list[str] | None = None,
         proof_modules: list[str] | None = None) -> int:
    """`suites`: list of callables (tier, seed, mult) -> SuiteResult."""
    import argparse
    ap = argparse.ArgumentParser()
    ap.add_argument("--tier", default=os.environ.get("VERIF_TIER", "quick"), choices=["quick", "thorough"])
    ap.add_argument("--replay", default=None)
    ap.add_argument("--skip-proof", action="store_true", help="debugging only")
    ap.add_argument("--gen-only", action="store_true",
                    help="evaluation of seeded changes on scratch copies: skip lake build / audit (the Lean sources did not "
                         "change) but re-translate the Python sources and re-check the generated model")
    a = ap.parse_args(sys.argv[2:])
    seed = int(os.environ.get("VERIF_SEED", "0"))
    if a.replay:
        # every random choice derives from the seed: replaying = re-running the same tier with the recorded seed
        rp = Path(a.replay)
        rp = rp if rp.is_absolute() or rp.exists() else OUT / rp
        rec = json.loads(rp.read_text())
        seed = int(rec.get("seed", seed))
        a.tier = rec.get("tier", a.tier)
        print(f"replaying {rp.name}: kind={rec.get('kind')} seed={seed} tier={a.tier} signature={rec.get('signature', rec.get('suite', '-'))}")
    t0 = time.time()
    violations: list[str] = []
    known_lines: list[str] = []
    infra_error = None

    # 1. proof gate -------------------------------------------------------------------
    gate = {"built": False, "scan": [], "audit": None}
    gate_ok = True
    if a.gen_only and not a.skip_proof:
        a.skip_proof = True
        if prop in GEN_PROPS:
            try:
                gate["gen"] = gen_gate(prop)
                gate_ok = gate["gen"]["ok"]
            except subprocess.TimeoutExpired:
                infra_error = "generated-model gate timed out"
    elif not a.skip_proof:
        try:
            ok, log = lake_build()
            gate["built"] = ok
            gate["build_log_tail"] = "" if ok else log
            gate["scan"] = scan_sources()
            gate["audit"] = audit(prop)
            gate_ok = ok and not gate["scan"] and gate["audit"]["ok"]
            if prop in GEN_PROPS:
                gate["gen"] = gen_gate(prop)
                gate_ok = gate_ok and gate["gen"]["ok"]
            if gate_ok and a.tier == "thorough":
                mods = proof_modules or [f"BBProps.{prop}"]
                ok2, log2 = leanchecker(mods)
                gate["leanchecker"] = {"modules": mods, "ok": ok2, "log": "" if ok2 else log2}
                gate_ok = gate_ok and ok2
        except subprocess.TimeoutExpired:
            infra_error = "proof gate timed out"
    obligations = len(gate["audit"]["theorems"]) if gate["audit"] else 0
    discharged = len(gate["audit"]["clean"]) if (gate["audit"] and gate["built"] and not gate["scan"]) else 0

    # 2./3. correspondence + oracle ------------------------------------------------------
    results: list[SuiteResult] = []
    mult = 1 if gate_ok else 4
    if True:
        for s in suites:
            try:
                results.append(s(a.tier, seed, mult))
            except subprocess.TimeoutExpired:
                infra_error = f"suite {getattr(s, '__name__', s)} timed out"
            except Exception:  # noqa: BLE001
                infra_error = f"suite {getattr(s, '__name__', s)} crashed:\n{traceback.format_exc()}"
    # a disagreement makes the search try harder on the suites that support it
    failures = [f for r in results for f in r.failures]
    disagreements = [(r.name, r.disagreement) for r in results if r.disagreement]

    # verdict ----------------------------------------------------------------------------
    for f in failures:
        k = is_known(prop, f["signature"])
        if k:
            line = f"KNOWN-FINDING: property={prop} {k['what']}"
            if line not in known_lines:
                known_lines.append(line)
        else:
            path = write_replay(prop, {"property": prop, "kind": "failing-input", "seed": seed, "tier": a.tier, **f})
            violations.append(f"VIOLATION property={prop} replay={path}")
    unknown_failures = bool(violations)
    if not unknown_failures:
        if not gate_ok and (not a.skip_proof or a.gen_only) and infra_error is None:
            path = write_replay(prop, {"property": prop, "kind": "broken-proof", "seed": seed, "tier": a.tier,
                                       "theorems_missing": gate["audit"]["missing"] if gate["audit"] else None,
                                       "theorems_dirty": gate["audit"]["dirty"] if gate["audit"] else None,
                                       "forbidden_tokens": gate["scan"], "built": gate["built"],
                                       "generated_model": gate.get("gen"),
                                       "theorems_broken_against_regenerated_model": (gate.get("gen") or {}).get("broken"),
                                       "log": (gate.get("build_log_tail") or (gate["audit"] or {}).get("log", ""))[-3000:]})
            violations.append(f"VIOLATION property={prop} replay={path} no-failing-input-found")
        for name, dis in disagreements:
            path = write_replay(prop, {"property": prop, "kind": "broken-correspondence", "suite": name, "seed": seed, "tier": a.tier, "case": dis})
            violations.append(f"VIOLATION property={prop} replay={path} no-failing-input-found")

    wall = time.time() - t0
    ev = {
        "property_id": prop, "tier": a.tier, "seed": seed, "level": "proof",
        "coverage": {
            "obligations": obligations, "discharged": discharged,
            "checker_cmd": f"cd lean && lake build && lake env lean <#print axioms of BBProps/{prop}.lean>"
                           + (" && lake env leanchecker" if a.tier == "thorough" else ""),
            "trusted_base": TRUSTED_BASE + (extra_trusted or []),
            "theorems": gate["audit"]["theorems"] if gate["audit"] else [],
            "evaluations": sum(r.evaluations for r in results),
            "distinct_nontrivial": sum(r.nontrivial for r in results),
            "rule": level_rule,
            "samples": [s for r in results for s in r.samples][:6] or ["(no samples)"],
            "traces_validated_against_impl": sum(r.traces for r in results),
            "suites": [r.to_json() for r in results],
            "proof_gate": {"built": gate["built"], "forbidden_tokens": gate["scan"],
                           "axioms_clean": gate["audit"]["clean"] if gate["audit"] else [],
                           "axioms_dirty": gate["audit"]["dirty"] if gate["audit"] else {},
                           "leanchecker": gate.get("leanchecker"),
                           "generated_model": {k: v for k, v in (gate.get("gen") or {"applies": False}).items() if k != "log"}},
        },
        "assumptions": assumptions or [],
        "wall_s": round(wall, 2),
        "violations": len(violations),
    }
    evdir = OUT / ("evidence-debug" if (a.skip_proof and OUT == VERIF) else "evidence")
    evdir.mkdir(exist_ok=True, parents=True)
    (evdir / f"{prop}.json").write_text(json.dumps(ev, indent=1, default=str))

    for line in known_lines:
        print(line)
    if infra_error and not violations:
        print(f"INFRA-ERROR property={prop}: {infra_error}", file=sys.stderr)
        return 2
    for v in violations:
        print(v)
    if violations:
        if infra_error:
            print(f"(note: {infra_error.splitlines()[0]} — the verdict rests on the other suites)", file=sys.stderr)
        return 1
    print(f"OK property={prop} tier={a.tier} seed={seed} obligations={obligations} discharged={discharged} "
          f"evaluations={ev['coverage']['evaluations']} wall={wall:.1f}s")
    return 0
