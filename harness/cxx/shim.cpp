// extern "C" entry points over the kernels of bblean/csrc/similarity.cpp (included textually;
// the path is given by -DBB_SIMILARITY_CPP=...)
#include <cstdint>
int bbshim_warnings_storage = 0;
extern "C" int bbshim_warnings;
int bbshim_warnings = 0;
#define BB_STR2(x) #x
#define BB_STR(x) BB_STR2(x)
#include BB_STR(BB_SIMILARITY_CPP)

namespace py = pybind11;
template <typename T> static py::array_t<T> B1(T* p, py::ssize_t n) { return py::array_t<T>::borrow(p, {n}); }
template <typename T> static py::array_t<T> B2(T* p, py::ssize_t n, py::ssize_t m) { return py::array_t<T>::borrow(p, {n, m}); }

extern "C" {
uint32_t c_popcount_1d(uint8_t* a, long n) { return _popcount_1d(B1(a, n)); }
void c_popcount_2d(uint8_t* a, long n, long m, uint32_t* out) {
    auto r = _popcount_2d(B2(a, n, m));
    std::memcpy(out, r.data(), n * sizeof(uint32_t));
}
int c_unpack_2d(uint8_t* a, long n, long m, long n_features, uint8_t* out) {
    try {
        auto r = _nochecks_unpack_fingerprints_2d(B2(a, n, m), n_features < 0 ? std::nullopt : std::optional<py::ssize_t>(n_features));
        std::memcpy(out, r.data(), r.nbytes());
        return 0;
    } catch (const std::runtime_error&) { return 1; }
}
void c_centroid(uint64_t* ls, long n_features, long long n_samples, int pack, uint8_t* out) {
    auto r = centroid_from_sum<uint64_t>(B1(ls, n_features), n_samples, pack != 0);
    std::memcpy(out, r.data(), r.nbytes());
}
double c_isim(uint64_t* ls, long n_features, long long n_objects) { return jt_isim_from_sum(B1(ls, n_features), n_objects); }
void c_arr_vec(uint8_t* arr, long n, long m, uint8_t* vec, double* out) {
    auto r = _jt_sim_arr_vec_packed(B2(arr, n, m), B1(vec, m));
    std::memcpy(out, r.data(), n * sizeof(double));
}
int c_most_dissimilar(uint8_t* arr, long n, long m, long n_features, long* i1, long* i2, double* s1, double* s2) {
    try {
        auto t = jt_most_dissimilar_packed(B2(arr, n, m), n_features < 0 ? std::nullopt : std::optional<py::ssize_t>(n_features));
        *i1 = t.i1; *i2 = t.i2;
        std::memcpy(s1, t.s1.data(), n * sizeof(double));
        std::memcpy(s2, t.s2.data(), n * sizeof(double));
        return 0;
    } catch (const std::runtime_error&) { return 1; }
}
double c_isim_unpacked_u8(uint8_t* arr, long n, long m) { return jt_isim_unpacked_u8(B2(arr, n, m)); }
double c_isim_packed_u8(uint8_t* arr, long n, long m, long n_features) {
    return jt_isim_packed_u8(B2(arr, n, m), n_features < 0 ? std::nullopt : std::optional<py::ssize_t>(n_features));
}
}
