#pragma once
#include "pybind11.h"
