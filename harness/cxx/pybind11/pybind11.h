// Minimal stand-in for the three pybind11 headers included by bblean/csrc/similarity.cpp.
// It provides exactly the surface that file uses, over raw buffers, so that the kernels can be
// compiled out of tree (no Python, no pybind11 in this sandbox) and called through ctypes.
// NOT a pybind11 replacement: argument conversion (forcecast, non-contiguous inputs) is absent.
#pragma once
#include <array>
#include <cstddef>
#include <cstdint>
#include <cstring>
#include <initializer_list>
#include <limits>
#include <memory>
#include <optional>
#include <type_traits>
#include <utility>
#include <vector>
#include <sys/types.h>

extern "C" int bbshim_warnings;
inline int PyErr_WarnEx(int, const char*, int) { ++bbshim_warnings; return 0; }
static const int PyExc_RuntimeWarning = 0;

namespace pybind11 {
using ssize_t = ::ssize_t;

struct buffer_info { void* ptr; };

struct array {
    enum { c_style = 1, forcecast = 16 };
};

template <typename T, int N> struct unchecked_ref {
    const T* p; ssize_t cols;
    const T& operator()(ssize_t i, ssize_t j) const { return p[i * cols + j]; }
};
template <typename T, int N> struct mutable_ref {
    T* p; ssize_t cols;
    T& operator()(ssize_t i, ssize_t j) const { return p[i * cols + j]; }
};

template <typename T, int Flags = 0>
class array_t : public array {
  public:
    std::shared_ptr<std::vector<T>> own;   // owned storage (may be empty for borrowed)
    T* ptr{nullptr};
    std::vector<ssize_t> shp;

    array_t() = default;
    explicit array_t(ssize_t n) : own(std::make_shared<std::vector<T>>(n)), ptr(own->data()), shp{n} {}
    array_t(std::initializer_list<ssize_t> s) : shp(s) {
        ssize_t n = 1; for (auto x : shp) n *= x;
        own = std::make_shared<std::vector<T>>(n); ptr = own->data();
    }
    array_t(ssize_t n, const T* src) : own(std::make_shared<std::vector<T>>(src, src + n)), ptr(own->data()), shp{n} {}
    template <int F2> array_t(const array_t<T, F2>& o) : own(o.own), ptr(o.ptr), shp(o.shp) {}
    static array_t borrow(T* p, std::vector<ssize_t> s) { array_t a; a.ptr = p; a.shp = std::move(s); return a; }

    ssize_t ndim() const { return static_cast<ssize_t>(shp.size()); }
    ssize_t shape(ssize_t i) const { return shp[i]; }
    ssize_t size() const { ssize_t n = 1; for (auto x : shp) n *= x; return n; }
    ssize_t nbytes() const { return size() * static_cast<ssize_t>(sizeof(T)); }
    const T* data() const { return ptr; }
    T* mutable_data() { return ptr; }
    buffer_info request() const { return buffer_info{const_cast<T*>(ptr)}; }
    template <int N> unchecked_ref<T, N> unchecked() const { return {ptr, shp[1]}; }
    template <int N> mutable_ref<T, N> mutable_unchecked() { return {ptr, shp[1]}; }
};

struct tuple {
    ssize_t i1, i2; array_t<double> s1, s2;
};
inline tuple make_tuple(ssize_t a, ssize_t b, const array_t<double>& c, const array_t<double>& d) { return tuple{a, b, c, d}; }

template <typename... A> void print(A&&...) {}

struct arg {
    const char* n;
    arg(const char* s) : n(s) {}
    template <typename V> arg& operator=(V&&) { return *this; }
};

struct module_ {
    struct doc_t { template <typename V> doc_t& operator=(V&&) { return *this; } } d;
    doc_t& doc() { return d; }
    template <typename... A> module_& def(A&&...) { return *this; }
};
}  // namespace pybind11

#define PYBIND11_MODULE(name, m) static void bbshim_module_init_##name(pybind11::module_& m)
