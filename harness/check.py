"""entry point: ./check Cxx [--tier ...] [--replay FILE]"""
import sys

import checklib
import registry


def main() -> int:
    if len(sys.argv) < 2 or sys.argv[1] not in registry.PROPS:
        print("usage: check <" + "|".join(sorted(registry.PROPS)) + "> [--tier quick|thorough] [--replay FILE]", file=sys.stderr)
        return 2
    prop = sys.argv[1]
    spec = registry.PROPS[prop]
    return checklib.main(prop, spec["suites"], spec["rule"], spec.get("trusted"), spec.get("assumptions"), spec.get("proof_modules"))


if __name__ == "__main__":
    sys.exit(main())
