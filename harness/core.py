"""Shared harness plumbing: driver process, canonical printing, implementation-side
executors.  Run with /venv/bin/python; `bblean` is an editable install of /repo, so the
implementation exercised is always /repo's current working tree."""
from __future__ import annotations

import os
import subprocess
import sys
import warnings
from fractions import Fraction
from pathlib import Path

VERIF = Path(__file__).resolve().parent.parent
REPO = Path(os.environ.get("BBLEAN_REPO", "/repo"))
DRIVER_BIN = Path(os.environ.get("BB_DRIVER_BIN", VERIF / "lean" / ".lake" / "build" / "bin" / "bbdriver"))

# The extension is not built in this sandbox; force the fallback so that a stray build can
# not silently change which implementation is exercised (C13 ties the two).
os.environ.setdefault("BITBIRCH_NO_EXTENSIONS", "1")
if str(REPO) not in sys.path:
    sys.path.insert(0, str(REPO))
if "BBLEAN_REPO" in os.environ:
    # a scratch copy of the repository (seeded-change evaluation): child processes (`bb`, pools) must import it too
    os.environ["PYTHONPATH"] = f"{REPO}:{os.environ.get('PYTHONPATH', '')}"

warnings.filterwarnings("ignore")

import numpy as np  # noqa: E402


# ----------------------------------------------------------------------------- driver
class Driver:
    """Long-lived model process: one command per line, one answer per line."""

    def __init__(self) -> None:
        if not DRIVER_BIN.exists():
            raise RuntimeError(f"model driver not built: {DRIVER_BIN}")
        self.p = subprocess.Popen(
            [str(DRIVER_BIN)], stdin=subprocess.PIPE, stdout=subprocess.PIPE, text=True, bufsize=1
        )
        self.n_cmds = 0

    def cmd(self, line: str) -> str:
        assert "\n" not in line
        self.p.stdin.write(line + "\n")
        self.p.stdin.flush()
        self.n_cmds += 1
        out = self.p.stdout.readline()
        if not out:
            raise RuntimeError("model driver died on: " + line[:200])
        return out.rstrip("\n")

    def close(self) -> None:
        try:
            self.p.stdin.close()
            self.p.wait(timeout=5)
        except Exception:
            self.p.kill()


# ------------------------------------------------------------------------ formatting
def frac(x) -> Fraction:
    """exact value of a Python/NumPy float or int"""
    if isinstance(x, Fraction):
        return x
    if isinstance(x, (int, np.integer)):
        return Fraction(int(x))
    return Fraction(*float(x).as_integer_ratio())


def show_rat(x) -> str:
    if x is None:
        return "nan"
    if isinstance(x, float) or isinstance(x, np.floating):
        if x != x:
            return "nan"
        if x in (float("inf"), float("-inf")):
            return "inf" if x > 0 else "-inf"
    f = frac(x)
    return f"{f.numerator}/{f.denominator}"


def show_nats(sep: str, xs) -> str:
    return sep.join(str(int(x)) for x in xs)


def pack_row(bits) -> bytes:
    return np.packbits(np.asarray(bits, dtype=np.uint8)).tobytes()


def row_hex(bits) -> str:
    return pack_row(bits).hex()


def exp_table_line(nmax: int) -> str:
    off = float(np.exp(-1e-3 * 1000))
    tab = ",".join(f"{n}:{show_rat(float(np.exp(-1e-3 * n)))}" for n in range(0, nmax + 1))
    return f"EXP off={show_rat(off)} tab={tab}"


# --------------------------------------------------------------- implementation views
def impl_show_cfg(tree) -> str:
    tol = tree.tolerance
    return (
        f"crit={tree.merge_criterion} tol={show_rat(tol) if tol is not None else 'nan'} "
        f"thr={show_rat(tree.threshold)} bf={int(tree.branching_factor)}"
    )


def impl_out(tree) -> str:
    """V_out: what a user can observe, printed exactly like the driver's `OUT`."""
    init = tree.is_init
    if init:
        d = tree.get_centroids_mol_ids(sort=True, packed=True)
        srt_ids = d["mol_ids"]
        assert srt_ids == tree.get_cluster_mol_ids(sort=True)
        uns_ids = tree.get_cluster_mol_ids(sort=False)
        bfs = tree._get_leaf_bfs(sort=True)
        metas = []
        for bf, c in zip(bfs, d["centroids"]):
            metas.append(
                f"{int(bf.n_samples)}:{bf.dtype_name}:{show_nats('.', bf.linear_sum)}:{np.asarray(c).tobytes().hex()}"
            )
        try:
            a = tree.get_assignments(check_valid=True)
            asg = show_nats(".", a)
        except (ValueError, IndexError) as e:
            asg = f"err:{type(e).__name__}"
    else:
        srt_ids, uns_ids, metas, asg = [], [], [], ""
    ids = lambda cs: ";".join(show_nats(".", c) for c in cs)  # noqa: E731
    return (
        f"n={tree.num_fitted_fps} init={'true' if init else 'false'} sorted=[{ids(srt_ids)}] "
        f"unsorted=[{ids(uns_ids)}] meta=[{';'.join(metas)}] assign=[{asg}] {impl_show_cfg(tree)}"
    )


def _show_clu(bf) -> str:
    return (
        f"n={int(bf.n_samples)} w={bf.dtype_name} ls={show_nats('.', bf.linear_sum)} "
        f"ids={show_nats('.', bf.mol_indices)} cent={np.asarray(bf.packed_centroid).tobytes().hex()}"
    )


def _show_cache(node) -> str:
    k = len(node._subclusters)
    return ",".join(node._packed_centroids_buf[i].tobytes().hex() for i in range(k))


def _show_node(node, depth_left: int) -> str:
    """depth_left = height of this node; fails when a leaf shows up at another depth"""
    is_leaf_level = depth_left == 0
    ents = []
    for bf in node._subclusters:
        if bf.child is None:
            if not is_leaf_level:
                raise StructureError("leaf entry above leaf level")
            ents.append(f"({_show_clu(bf)})")
        else:
            if is_leaf_level:
                raise StructureError("inner entry at leaf level")
            ents.append(f"({_show_clu(bf)} child={_show_node(bf.child, depth_left - 1)})")
    kind = "leaf" if is_leaf_level else "inner"
    return f"({kind} cap={node.branching_factor} ents=[{';'.join(ents)}] cache=[{_show_cache(node)}])"


class StructureError(Exception):
    pass


def _height(node) -> int:
    h = 0
    while node._subclusters and node._subclusters[0].child is not None:
        node = node._subclusters[0].child
        h += 1
    return h


def _leaf_paths(node, path, out):
    if not node._subclusters or node._subclusters[0].child is None:
        out[id(node)] = path
        return
    for i, bf in enumerate(node._subclusters):
        _leaf_paths(bf.child, path + [i], out)


def impl_tree(tree) -> str:
    """V_tree: the full private structure, printed exactly like the driver's `TREE`."""
    root = tree._root
    first = tree._dummy_leaf._next_leaf
    if root is None and first is None:
        return "uninit"
    if root is None:
        leaves = []
        leaf = first
        while leaf is not None:
            leaves.append(_show_node(leaf, 0))
            leaf = leaf._next_leaf
        return f"leaves=[{';'.join(leaves)}]"
    h = _height(root)
    paths: dict = {}
    _leaf_paths(root, [], paths)
    ch = []
    leaf = first
    seen = 0
    while leaf is not None and seen < 10**7:
        p = paths.get(id(leaf))
        ch.append(show_nats(".", p) if p is not None else "?")
        leaf = leaf._next_leaf
        seen += 1
    return f"full h={h} F={root.n_features} chain=[{'|'.join(ch)}] root={_show_node(root, h)}"


def err_name(e: BaseException) -> str:
    return f"err:{type(e).__name__}"
