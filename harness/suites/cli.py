"""S-CLI: `bb run` and `bb multiround` executed through typer's CliRunner (in-process) or the
`bb` entry point (subprocess, for monitoring on), over generated option combinations,
compared with the Python API following the model's plan (driver command CLIPLAN) and with
the model itself; output-directory handling (refusal / overwrite)."""
from __future__ import annotations

import json
import os
import pickle
import random
import shutil
import subprocess
import tempfile
from pathlib import Path

from core import Driver, np, show_rat, show_nats, row_hex, exp_table_line, impl_tree
from ops import rows_arg
from checklib import SuiteResult
from suites.multiround import gen_case as gen_mr_case, write_inputs, model_line as mr_model_line, show_dir, run_impl as mr_run_impl, finals

import bblean.bitbirch as bbmod
from bblean.bitbirch import BitBirch

CRITS = ["radius", "diameter", "tolerance-diameter", "tolerance-radius", "tolerance-legacy", "never-merge"]
SCRATCH = os.environ.get("VERIF_SCRATCH", "/var/tmp")


def _runner():
    from typer.testing import CliRunner
    from bblean.cli import app
    return CliRunner(), app


class ShuffleTap:
    """records (or replays) the permutations applied by random.shuffle inside bblean.bitbirch"""

    def __init__(self, replay=None):
        self.perms: list[list[int]] = []
        self.replay = list(replay) if replay is not None else None

    def __enter__(self):
        self.real = bbmod.random
        me = self

        class P:
            @staticmethod
            def seed(s):
                me.real.seed(s)

            @staticmethod
            def shuffle(lst):
                if me.replay is not None:
                    idx = me.replay.pop(0)
                else:
                    idx = list(range(len(lst)))
                    me.real.shuffle(idx)
                me.perms.append(list(idx))
                lst[:] = [lst[i] for i in idx]
        bbmod.random = P
        return self

    def __exit__(self, *a):
        bbmod.random = self.real
        return False


def gen_run_case(rng: random.Random) -> dict:
    F = rng.choice([8, 13, 16, 64])
    n_files = rng.choice([1, 1, 2, 3])
    protos = [[1 if rng.random() < 0.5 else 0 for _ in range(F)] for _ in range(rng.randint(1, 3))]
    files = []
    for _ in range(n_files):
        n = rng.choice([1, 4, 12, 30])
        files.append([[b ^ (1 if rng.random() < rng.choice([0.0, 0.05, 0.2]) else 0) for b in rng.choice(protos)] for _ in range(n)])
    return {
        "F": F, "files": files, "packed": rng.random() < 0.6, "single_file": n_files == 1 and rng.random() < 0.5,
        "bf": rng.choice([2, 3, 5, 50]), "thr": rng.choice([0.0, 0.3, 0.5, 0.65, 0.9]), "chg": rng.choice([0.0, 0.05, -0.1]),
        "tol": rng.choice([0.0, 0.05, 0.5]), "crit": rng.choice(CRITS), "rcrit": rng.choice(CRITS),
        "rnum": rng.choice([0, 0, 1, 2]), "rrounds": rng.choice([None, None, 0, 1, 2]), "crounds": rng.choice([0, 0, 1, 2]),
        "shuffle": rng.random() < 0.5, "save_tree": rng.random() < 0.4, "cent": rng.random() < 0.7,
        "overwrite": rng.random() < 0.3, "prepopulated": rng.random() < 0.4, "copy": rng.random() < 0.5,
        "monitor": rng.random() < 0.15,
        # unpacked 0/1 features may be stored in any integer dtype (the API and `fit(path)` accept them all)
        "unpacked_dtype": rng.choice([None, None, "int8", "int32", "int64", "uint16"]),
    }


def run_args(case: dict, inp: Path, out: Path) -> list[str]:
    a = ["run", str(inp), "-o", str(out), "-b", str(case["bf"]), "-t", repr(case["thr"]), "--refine-threshold-change", repr(case["chg"]),
         "--tolerance", repr(case["tol"]), "--set-merge", case["crit"], "--set-refine-merge", case["rcrit"], "--refine-num", str(case["rnum"]),
         "--recluster-rounds", str(case["crounds"]), "--recluster-shuffle" if case["shuffle"] else "--no-recluster-shuffle",
         "--save-tree" if case["save_tree"] else "--no-save-tree", "--save-centroids" if case["cent"] else "--no-save-centroids",
         "--copy" if case["copy"] else "--no-copy", "--packed-input" if case["packed"] else "--unpacked-input", "--no-verbose",
         "--monitor-mem" if case["monitor"] else "--no-monitor-mem"]
    if case["rrounds"] is not None:
        a += ["--refine-rounds", str(case["rrounds"])]
    if case["packed"] and case["F"] % 8:
        a += ["--n-features", str(case["F"])]
    if case["overwrite"]:
        a += ["--overwrite"]
    return a


def snapshot(d: Path) -> dict:
    return {str(p.relative_to(d)): (p.read_bytes() if p.is_file() else None) for p in sorted(d.rglob("*"))}


def listing(d: Path) -> list[str]:
    return sorted(p.name for p in d.iterdir())


def suite_run(tier: str, seed: int, mult: int) -> SuiteResult:
    rng = random.Random(seed + 109)
    res = SuiteResult("S-CLI[bb run]")
    d = Driver()
    work = Path(tempfile.mkdtemp(prefix="bbverif-cli-", dir=SCRATCH))
    cnt = {"runs": 0, "refused": 0, "overwrites": 0, "with_refine": 0, "with_recluster": 0, "save_tree": 0, "monitor_subprocess": 0,
           "single_file": 0, "unpacked": 0, "saved_trees_with_inner_nodes": 0}
    runner, app = _runner()

    def fail(sig, what, case):
        if not res.failures:
            res.failures.append({"signature": sig, "what": what, "case": {k: v for k, v in case.items() if k != "files"} |
                                 {"file_sizes": [len(f) for f in case["files"]]}})

    try:
        for k in range((40 if tier == "quick" else 500) * mult):
            case = gen_run_case(rng)
            N = sum(len(f) for f in case["files"])
            indir = work / f"in{k}"
            indir.mkdir()
            paths = write_inputs(case, indir)
            inp = paths[0] if case["single_file"] else indir
            out = work / f"out{k}"
            before = None
            if case["prepopulated"]:
                # the leftovers of an earlier run: stale outputs, its input-fps/ (an entry named like a new input, and another one),
                # and a foreign sub-directory
                out.mkdir()
                (out / "old.txt").write_text("x")
                (out / "clusters.pkl").write_bytes(b"stale")
                (out / "input-fps").mkdir()
                (out / "input-fps" / paths[0].name).write_bytes(b"stale")
                (out / "input-fps" / "zzz-old.npy").write_bytes(b"stale")
                (out / "sub").mkdir()
                (out / "sub" / "x").write_text("y")
                before = snapshot(out)
            args = run_args(case, inp, out)
            cnt["runs"] += 1
            res.evaluations += 1
            with ShuffleTap() as tap:
                if case["monitor"]:
                    cnt["monitor_subprocess"] += 1
                    args2 = [a for a in args]
                    if case["crounds"] and case["shuffle"]:
                        args2[args2.index("--recluster-shuffle")] = "--no-recluster-shuffle"
                        case["shuffle"] = False
                    r = subprocess.run(["/venv/bin/bb", *args2], capture_output=True, text=True, timeout=600,
                                       env={**os.environ, "BITBIRCH_NO_EXTENSIONS": "1"})
                    code, outtxt = r.returncode, r.stdout + r.stderr
                else:
                    r = runner.invoke(app, args)
                    code, outtxt = r.exit_code, (r.output or "") + (repr(r.exception) if r.exception else "")
            perms = tap.perms
            expect_refusal = case["prepopulated"] and not case["overwrite"]
            if expect_refusal:
                cnt["refused"] += 1
                now = snapshot(out)
                if code == 0:
                    fail("C15:non-empty-output-dir-not-refused", "exit code 0 on a non-empty output directory without --overwrite", case)
                elif now != before:
                    fail("C15:refused-run-touched-the-output-dir", f"{sorted(before)} -> {sorted(now)}", case)
                shutil.rmtree(indir, ignore_errors=True)
                shutil.rmtree(out, ignore_errors=True)
                continue
            if code != 0:
                fail(f"C15:bb-run-failed:{(outtxt.strip().splitlines() or ['?'])[-1][:80]}",
                     f"exit code {code} for documented options: {' '.join(args[3:])[:300]} :: {outtxt[-300:]}", case)
                break
            if case["prepopulated"]:
                cnt["overwrites"] += 1
            # the plan, from the model
            plan = d.cmd(f"CLIPLAN bf={case['bf']} thr={show_rat(case['thr'])} chg={show_rat(case['chg'])} tol={show_rat(case['tol'])} "
                         f"crit={case['crit']} rcrit={case['rcrit']} rnum={case['rnum']} rrounds={'-' if case['rrounds'] is None else case['rrounds']} "
                         f"crounds={case['crounds']} lens={show_nats(',', [len(f) for f in case['files']])}")
            ops = [o.strip() for o in plan.split(" ; ")]
            cnt["with_refine"] += any(o.startswith("REFINE") for o in ops)
            cnt["with_recluster"] += any(o.startswith("RECLUSTER") for o in ops)
            cnt["save_tree"] += case["save_tree"]
            cnt["single_file"] += case["single_file"]
            cnt["unpacked"] += not case["packed"]
            # API following the plan
            t = BitBirch(branching_factor=case["bf"], threshold=case["thr"], merge_criterion=case["crit"], tolerance=case["tol"])
            fkw = {"input_is_packed": case["packed"], "n_features": case["F"] if (case["packed"] and case["F"] % 8) else None}
            d.cmd(exp_table_line(N + 2))
            d.cmd(f"NEW thr={show_rat(case['thr'])} bf={case['bf']} crit={case['crit']} tol={show_rat(case['tol'])}")
            allrows = [r for f in case["files"] for r in f]
            api_err = None
            try:
                with ShuffleTap(replay=perms if case["shuffle"] else None):
                    for o in ops:
                        if o.startswith("FIT"):
                            i = int(o.split()[1])
                            t.fit(paths[i], **fkw)
                            d.cmd(f"FIT F={case['F']} labels=- rows={rows_arg(case['F'], case['files'][i])}")
                        elif o.startswith("SETMERGE"):
                            kv = dict(x.split("=", 1) for x in o.split()[1:])
                            from fractions import Fraction
                            t.set_merge(kv["crit"], tolerance=float(Fraction(kv["tol"])), threshold=float(Fraction(kv["thr"])))
                            d.cmd(o)
                        elif o.startswith("REFINE"):
                            n = int(o.split()[1].split("=")[1])
                            t.refine_inplace(paths, input_is_packed=case["packed"], n_largest=n)
                            d.cmd(f"REFINE n={n} im=0 F={case['F']} srt=1 rows={rows_arg(case['F'], allrows)}")
                        elif o.startswith("RECLUSTER"):
                            j = int(o.split()[1])
                            t.recluster_inplace(shuffle=case["shuffle"])
                            p = show_nats(".", perms[j]) if (case["shuffle"] and j < len(perms)) else "_"
                            d.cmd(f"RECLUSTER it=1 extra=0/1 stop=0 perms={p}")
                        elif o == "DELINT":
                            try:
                                api_tree = impl_tree(t)
                            except Exception as e:  # noqa: BLE001
                                api_tree = f"unprintable:{type(e).__name__}"
                            t.delete_internal_nodes()
                            d.cmd("DELINT")
            except Exception as e:  # noqa: BLE001
                api_err = f"{type(e).__name__}: {e}"
            cli_clusters = pickle.load(open(out / "clusters.pkl", "rb")) if (out / "clusters.pkl").exists() else None
            if api_err:
                fail("C15:api-following-the-plan-failed", api_err[:300], case)
                break
            api_clusters = t.get_cluster_mol_ids()
            mo = d.cmd("OUT")
            m_sorted = mo.split("sorted=[")[1].split("]")[0]
            cli_s = ";".join(show_nats(".", c) for c in (cli_clusters or []))
            if cli_clusters is None:
                fail("C15:no-clusters-file", "clusters.pkl missing after exit code 0", case)
            elif [list(map(int, c)) for c in cli_clusters] != [list(map(int, c)) for c in api_clusters]:
                fail("C15:cli-clusters-differ-from-api", f"{cli_s[:200]} vs api", case)
            if cli_s != m_sorted and res.disagreement is None:
                res.disagreement = {"what": "bb run clusters vs model run of the plan", "plan": plan, "case": {k2: v for k2, v in case.items() if k2 != "files"},
                                    "model": m_sorted[:1500], "impl": cli_s[:1500]}
            # numbering: label i is row i of the concatenation in sorted-file order (exact summaries recomputed)
            if cli_clusters is not None and sorted(i for c in cli_clusters for i in c) != list(range(N)):
                fail("C15:cli-clusters-do-not-number-molecules-0..N-1", f"{N} rows", case)
            if case["cent"]:
                cp = out / "cluster-centroids-packed.pkl"
                X = np.asarray(allrows, dtype=np.uint64).reshape(N, case["F"])
                if not cp.exists():
                    fail("C15:centroids-file-missing", "--save-centroids without cluster-centroids-packed.pkl", case)
                else:
                    ce = pickle.load(open(cp, "rb"))
                    for ids, c in zip(cli_clusters or [], ce):
                        ls = X[ids].sum(axis=0)
                        maj = (2 * ls >= len(ids)) if len(ids) > 1 else (ls != 0)
                        if np.packbits(maj.astype(np.uint8)).tobytes() != np.asarray(c).tobytes():
                            fail("C15:cli-centroid-not-the-majority-of-its-cluster-in-sorted-file-numbering", f"cluster of {len(ids)}", case)
                            break
            if case["save_tree"]:
                tp_ = out / "bitbirch.pkl"
                if not tp_.exists():
                    fail("C15:tree-file-missing", "--save-tree without bitbirch.pkl", case)
                else:
                    t2 = BitBirch.load(tp_)
                    if [list(map(int, c)) for c in t2.get_cluster_mol_ids()] != [list(map(int, c)) for c in api_clusters]:
                        fail("C15:saved-tree-differs", "bitbirch.pkl reloaded gives other clusters", case)
                    try:
                        cli_tree = impl_tree(t2)
                    except Exception as e:  # noqa: BLE001
                        cli_tree = f"unprintable:{type(e).__name__}"
                    cnt["saved_trees_with_inner_nodes"] += api_tree.startswith("full h=") and not api_tree.startswith("full h=0")
                    if cli_tree != api_tree:
                        fail("C15:saved-tree-is-not-the-tree-the-api-saves", f"cli {cli_tree[:150]} vs api {api_tree[:150]}", case)
            want = {"clusters.pkl", "config.json", "timings.json", "input-fps"} | ({"cluster-centroids-packed.pkl"} if case["cent"] else set()) \
                | ({"bitbirch.pkl"} if case["save_tree"] else set())
            have = set(listing(out)) - {"monitor-rss.csv", "max-rss.txt", "max-rss.txt.tmp"}
            if have != want:
                fail("C15:output-dir-does-not-hold-exactly-the-new-outputs", f"extra {sorted(have - want)} missing {sorted(want - have)}", case)
            inputs_dir = out / "input-fps"
            if inputs_dir.exists():
                ents = sorted(inputs_dir.iterdir())
                if [e.name for e in ents] != [p.name for p in (paths if not case["single_file"] else paths[:1])] or \
                        any(e.is_symlink() == case["copy"] for e in ents):
                    fail("C15:input-fps-copy/symlink-wrong", str([(e.name, e.is_symlink()) for e in ents]), case)
            cfg = json.load(open(out / "config.json")) if (out / "config.json").exists() else {}
            if cfg.get("input_files") != [str(p.resolve()) for p in (paths if not case["single_file"] else paths[:1])]:
                fail("C15:config-input-files-not-in-sorted-order", str(cfg.get("input_files"))[:200], case)
            if any(len(c) > 1 for c in api_clusters) and N > 1:
                res.nontrivial += 1
            if len(res.samples) < 2:
                res.samples.append({"args": args[3:], "plan": plan, "clusters": len(api_clusters)})
            shutil.rmtree(indir, ignore_errors=True)
            shutil.rmtree(out, ignore_errors=True)
            if res.failures:
                break
    finally:
        d.close()
        shutil.rmtree(work, ignore_errors=True)
    res.counters = cnt
    return res


def suite_multiround(tier: str, seed: int, mult: int) -> SuiteResult:
    rng = random.Random(seed + 113)
    res = SuiteResult("S-CLI[bb multiround]")
    d = Driver()
    work = Path(tempfile.mkdtemp(prefix="bbverif-clim-", dir=SCRATCH))
    cnt = {"runs": 0, "refused": 0, "overwrites": 0, "save_tree": 0, "monitor_on": 0, "processes_gt1": 0}
    runner, app = _runner()

    def fail(sig, what, case):
        if not res.failures:
            res.failures.append({"signature": sig, "what": what, "case": {k: v for k, v in case.items() if k != "files"} |
                                 {"file_sizes": [len(f) for f in case["files"]]}})

    try:
        for k in range((25 if tier == "quick" else 300) * mult):
            case = gen_mr_case(rng)
            if k < 4:
                # forced: the split step with the DEFAULT single midsection round (and with two)
                case.update(split=True, mids=1 if k < 3 else 2)
            case["final"] = None  # the command has no separate final criterion
            case["dup"] = None    # the command reads a directory: every input is a distinct file
            case["cleanup"] = rng.random() < 0.7
            extra = {"overwrite": rng.random() < 0.3, "prepopulated": rng.random() < 0.4, "save_tree": rng.random() < 0.25,
                     "ps": rng.choice([1, 1, 2, 3]), "monitor": False, "copy": rng.random() < 0.5}
            N = sum(len(f) for f in case["files"])
            indir = work / f"in{k}"
            indir.mkdir()
            paths = write_inputs(case, indir)
            out = work / f"out{k}"
            before = None
            if extra["prepopulated"]:
                out.mkdir()
                (out / "old.txt").write_text("x")
                (out / "input-fps").mkdir()
                (out / "input-fps" / paths[0].name).write_bytes(b"stale")
                (out / "input-fps" / "zzz-old.npy").write_bytes(b"stale")
                before = snapshot(out)
            args = ["multiround", str(indir), "-o", str(out), "--ps", str(extra["ps"]), "-b", str(case["bf"]), "-t", repr(case["thr"]),
                    "--mid-threshold-change", repr(case["chg"]), "--set-merge", case["init"], "--set-mid-merge", case["mid"],
                    "--tolerance", repr(case["tol"]), "--num-mid-rounds", str(case["mids"]), "--bin-size", str(case["bin"]),
                    "--initial-refine", case["mode"], "--split-after-mid" if case["split"] else "--no-split-after-mid",
                    "--save-centroids" if case["cent"] else "--no-save-centroids", "--save-tree" if extra["save_tree"] else "--no-save-tree",
                    "--packed-input" if case["packed"] else "--unpacked-input", "--no-monitor-mem", "--no-verbose", "--fork",
                    "--cleanup" if case["cleanup"] else "--no-cleanup", "--copy" if extra["copy"] else "--no-copy"]
            if case["packed"] and case["F"] % 8:
                args += ["--n-features", str(case["F"])]
            if extra["overwrite"]:
                args += ["--overwrite"]
            r = runner.invoke(app, args)
            code, outtxt = r.exit_code, (r.output or "") + (repr(r.exception) if r.exception else "")
            cnt["runs"] += 1
            cnt["processes_gt1"] += extra["ps"] > 1
            res.evaluations += 1
            if extra["prepopulated"] and not extra["overwrite"]:
                cnt["refused"] += 1
                now = snapshot(out)
                if code == 0:
                    fail("C15:non-empty-output-dir-not-refused", "bb multiround exit code 0 on a non-empty output directory", case | extra)
                elif now != before:
                    fail("C15:refused-run-touched-the-output-dir", "bb multiround", case | extra)
                shutil.rmtree(indir, ignore_errors=True)
                shutil.rmtree(out, ignore_errors=True)
                continue
            if code != 0:
                fail(f"C15:bb-multiround-failed:{(outtxt.strip().splitlines() or ['?'])[-1][:80]}",
                     f"exit code {code}: {' '.join(args[3:])[:300]} :: {outtxt[-300:]}", case | extra)
                break
            cnt["overwrites"] += extra["prepopulated"]
            cnt["save_tree"] += extra["save_tree"]
            # API run in a fresh directory, serial
            o2 = work / f"api{k}"
            o2.mkdir()
            a = mr_run_impl(case, paths, o2, procs=1)
            if a != "ok" or finals(o2) != finals(out):
                fail("C15:bb-multiround-differs-from-api", f"api={a}", case | extra)
            d.cmd(exp_table_line(N + 2))
            mans = d.cmd(mr_model_line(case))
            # compare the files both produce (finals and, with --no-cleanup, the round files)
            keep = lambda s: " ".join(x for x in s.split(" ") if x.split("=")[0] in ("ok", "clusters.pkl", "cluster-centroids-packed.pkl")
                                      or x.startswith("round-"))  # noqa: E731
            iv = keep("ok " + show_dir(out))
            if keep(mans) != iv and res.disagreement is None:
                res.disagreement = {"what": "bb multiround vs model", "case": {k2: v for k2, v in case.items() if k2 != "files"},
                                    "model": keep(mans)[:1500], "impl": iv[:1500]}
            want = {"clusters.pkl", "config.json", "timings.json", "input-fps"} | ({"cluster-centroids-packed.pkl"} if case["cent"] else set()) \
                | ({"bitbirch.pkl"} if extra["save_tree"] else set())
            have = {n for n in listing(out) if not n.startswith("round-")}
            if have != want:
                fail("C15:output-dir-does-not-hold-exactly-the-new-outputs", f"extra {sorted(have - want)} missing {sorted(want - have)}", case | extra)
            ents = sorted((out / "input-fps").iterdir()) if (out / "input-fps").is_dir() else []
            if [e.name for e in ents] != [p.name for p in paths] or any(e.is_symlink() == extra["copy"] for e in ents):
                fail("C15:input-fps-copy/symlink-wrong", str([(e.name, e.is_symlink()) for e in ents]), case | extra)
            if len(paths) > 1:
                res.nontrivial += 1
            if len(res.samples) < 2:
                res.samples.append({"args": args[3:]})
            for x in (indir, out, o2):
                shutil.rmtree(x, ignore_errors=True)
            if res.failures:
                break
    finally:
        d.close()
        shutil.rmtree(work, ignore_errors=True)
    res.counters = cnt
    return res
