"""S-TREE-OUT / S-TREE-STRUCT: operation histories on the real estimator and on the model,
compared after every operation on the public observables (V_out) and, optionally, on the
full private structure (V_tree)."""
from __future__ import annotations

import json
import random

from core import Driver, exp_table_line, impl_out, impl_tree, StructureError
from ops import Session, gen_history, total_rows


def run_history(d: Driver, hist: dict, struct: bool = True, oracles=(), per_insert: bool = False) -> dict | None:
    """returns None when model and code agree everywhere, else a disagreement record"""
    d.cmd(exp_table_line(total_rows(hist) + 2))
    s = Session(d, hist["cfg"], hist["F"])
    m, i = s.construct()
    if m != i:
        return {"at": "construct", "model": m, "impl": i}
    if i != "ok":
        return None
    ops = hist["ops"]
    if per_insert:
        ops = []
        for op in hist["ops"]:
            if op["op"] == "fit" and all(len(r) == op["F"] for r in op["rows"]):
                ops.extend({**op, "rows": [r]} for r in op["rows"])
            else:
                ops.append(op)
    for k, op in enumerate(ops):
        if op["op"] == "refine" and not s.labels_contiguous:
            continue
        line, mans, ians = s.step(op)
        if mans != ians:
            return {"at": k, "what": "answer", "line": line[:2000], "model": mans, "impl": ians}
        mo, io = d.cmd("OUT"), impl_out(s.tree)
        if mo != io:
            return {"at": k, "what": "V_out", "line": line[:2000], "model": mo, "impl": io}
        if struct:
            mt = d.cmd("TREE")
            try:
                it = impl_tree(s.tree)
            except StructureError as e:
                it = f"structure-error:{e}"
            if mt != it:
                return {"at": k, "what": "V_tree", "line": line[:2000], "model": mt, "impl": it}
        for orc in oracles:
            v = orc(s, op, k)
            if v is not None:
                return {"at": k, "what": "oracle", "oracle": v}
    return None


def features(hist: dict, d: Driver) -> dict:
    """cheap non-triviality features of the final state (from the model's dump)"""
    t = d.cmd("TREE")
    o = d.cmd("OUT")
    multi = any(seg.split(":")[0] not in ("", "1") for seg in o.split("meta=[")[1].split("]")[0].split(";"))
    return {"height": int(t.split("h=")[1].split(" ")[0]) if t.startswith("full") else 0, "merged": multi}


def run(seed: int, n_hist: int, struct: bool = True, max_ops: int = 12, max_rows: int = 40) -> dict:
    rng = random.Random(seed)
    d = Driver()
    stats = {"histories": 0, "ops": 0, "nontrivial": 0, "height_ge2": 0, "disagreement": None, "samples": []}
    seen = set()
    try:
        for _ in range(n_hist):
            hist = gen_history(rng, max_ops=max_ops, max_rows=max_rows)
            r = run_history(d, hist, struct=struct)
            stats["histories"] += 1
            stats["ops"] += len(hist["ops"])
            if r is not None:
                stats["disagreement"] = {"hist": hist, **r}
                break
            f = features(hist, d)
            key = json.dumps(hist, sort_keys=True)
            if f["merged"] and f["height"] >= 1 and key not in seen:
                seen.add(key)
                stats["nontrivial"] += 1
            if f["height"] >= 2:
                stats["height_ge2"] += 1
            if len(stats["samples"]) < 2:
                stats["samples"].append({"cfg": hist["cfg"], "F": hist["F"], "ops": [o["op"] for o in hist["ops"]]})
    finally:
        d.close()
    return stats


if __name__ == "__main__":
    import sys
    seed = int(sys.argv[1]) if len(sys.argv) > 1 else 0
    n = int(sys.argv[2]) if len(sys.argv) > 2 else 50
    st = run(seed, n)
    dis = st.pop("disagreement")
    print(json.dumps(st)[:1000])
    if dis:
        print("DISAGREEMENT at", dis["at"], dis.get("what"))
        print(" line :", dis.get("line", "")[:600])
        print(" model:", dis["model"][:1500])
        print(" impl :", dis["impl"][:1500])
        print(" cfg:", dis["hist"]["cfg"], "ops:", [o["op"] for o in dis["hist"]["ops"]])
