"""S-TREE-OUT / S-TREE-STRUCT: operation histories on the real estimator and on the model,
compared after every operation on the public observables (V_out) and, optionally, on the
full private structure (V_tree); direct oracles for the failing-input search."""
from __future__ import annotations

import copy
import json
import random

from core import Driver, exp_table_line, impl_out, impl_tree, StructureError
from ops import Session, gen_history, total_rows
from checklib import SuiteResult


def expand_per_insert(hist: dict) -> dict:
    ops = []
    for op in hist["ops"]:
        if op["op"] == "fit" and all(len(r) == op["F"] for r in op["rows"]) and op.get("labels") is None:
            ops.extend({**op, "rows": [r]} for r in op["rows"])
        else:
            ops.append(op)
    return {**hist, "ops": ops}


def run_history(d: Driver, hist: dict, struct: bool = True, oracles=(), stop_on_failure: bool = True):
    """returns (disagreement | None, failures, features)"""
    d.cmd(exp_table_line(total_rows(hist) + 2))
    s = Session(d, hist["cfg"], hist["F"])
    failures: list[dict] = []
    feats = {"height": 0, "merged": False, "errors": 0, "ops": 0}
    m, i = s.construct()
    if m != i:
        return {"at": "construct", "what": "answer", "model": m, "impl": i}, failures, feats
    if i != "ok":
        return None, failures, feats
    for k, op in enumerate(hist["ops"]):
        if op["op"] == "refine" and not s.labels_contiguous:
            continue
        for orc in oracles:
            if hasattr(orc, "before"):
                orc.before(s, op, k)
        line, mans, ians = s.step(op)
        feats["ops"] += 1
        if ians != "ok":
            feats["errors"] += 1
        dis = None
        if mans != ians:
            dis = {"at": k, "what": "answer", "line": line[:3000], "model": mans, "impl": ians}
        else:
            mo, io = d.cmd("OUT"), impl_out(s.tree)
            if mo != io:
                dis = {"at": k, "what": "V_out", "line": line[:3000], "model": mo[:4000], "impl": io[:4000]}
            elif struct:
                mt = d.cmd("TREE")
                try:
                    it = impl_tree(s.tree)
                except StructureError as e:
                    it = f"structure-error:{e}"
                if mt != it:
                    dis = {"at": k, "what": "V_tree", "line": line[:3000], "model": mt[:4000], "impl": it[:4000]}
                if mt.startswith("full"):
                    feats["height"] = max(feats["height"], int(mt.split("h=")[1].split(" ")[0]))
            if "meta=[" in mo:
                for seg in mo.split("meta=[")[1].split("]")[0].split(";"):
                    if seg and seg.split(":")[0] != "1":
                        feats["merged"] = True
        for orc in oracles:
            v = orc(s, op, k, ians)
            if v is not None:
                failures.append({**v, "at": k})
        if dis is not None:
            return dis, failures, feats
        if failures and stop_on_failure:
            return None, failures, feats
    return None, failures, feats


def shrink(hist: dict, still_bad, budget: int = 60) -> dict:
    """greedy delta-debugging over ops and rows"""
    best = copy.deepcopy(hist)
    tries = 0

    def attempt(cand):
        nonlocal best, tries
        tries += 1
        if tries > budget:
            return False
        try:
            if still_bad(cand):
                best = cand
                return True
        except Exception:  # noqa: BLE001
            return False
        return False

    changed = True
    while changed and tries <= budget:
        changed = False
        for i in range(len(best["ops"]) - 1, -1, -1):
            cand = copy.deepcopy(best)
            del cand["ops"][i]
            if cand["ops"] and attempt(cand):
                changed = True
                break
        if changed:
            continue
        for i, op in enumerate(best["ops"]):
            if op["op"] == "fit" and len(op["rows"]) > 1:
                for half in (0, 1):
                    cand = copy.deepcopy(best)
                    rows = cand["ops"][i]["rows"]
                    mid = len(rows) // 2
                    cand["ops"][i]["rows"] = rows[:mid] if half == 0 else rows[mid:]
                    if attempt(cand):
                        changed = True
                        break
                if changed:
                    break
    return best


def hist_key(hist: dict) -> str:
    return json.dumps(hist, sort_keys=True, default=str)


def run_suite(name: str, seed: int, n_hist: int, struct: bool, oracles=(), max_ops: int = 12, max_rows: int = 40,
              per_insert_every: int = 0, gen=gen_history, gen_kw=None, corpus: list | None = None) -> SuiteResult:
    rng = random.Random(seed)
    res = SuiteResult(name)
    d = Driver()
    seen = set()
    cnt = {"height_ge1": 0, "height_ge2": 0, "merged": 0, "errors": 0, "ops": 0, "histories": 0}
    try:
        hists = list(corpus or [])
        for i in range(n_hist):
            kw = dict(gen_kw or {})
            if gen is gen_history and "force" not in kw and i < 16 and n_hist >= 100:
                kw["force"] = ("wide", "wide", "wide", "big", "big", "big", "big255", "big255", "big255", "offset", "offset", "offset",
                               "offset", "offset", "big2", "big2")[i]
                if kw["force"] in ("offset", "big2") and "refine" not in kw.get("allow", ("refine",)):
                    kw.pop("force")
            h = gen(rng, max_ops=max_ops, max_rows=max_rows, **kw)
            if per_insert_every and i % per_insert_every == 0:
                h = expand_per_insert(h)
            hists.append(h)
        for hist in hists:
            dis, fails, f = run_history(d, hist, struct=struct, oracles=[o() for o in oracles])
            res.evaluations += 1
            res.traces += 1
            cnt["histories"] += 1
            cnt["ops"] += f["ops"]
            cnt["errors"] += f["errors"]
            cnt["height_ge1"] += f["height"] >= 1
            cnt["height_ge2"] += f["height"] >= 2
            cnt["merged"] += bool(f["merged"])
            key = hist_key(hist)
            if f["merged"] and (f["height"] >= 1 or not struct) and key not in seen:
                seen.add(key)
                res.nontrivial += 1
            if len(res.samples) < 2:
                res.samples.append({"cfg": hist["cfg"], "F": hist["F"],
                                    "ops": [o["op"] + (f"({len(o['rows'])} rows, {o.get('form')})" if o["op"] == "fit" else "")
                                            for o in hist["ops"]]})
            if fails:
                def bad(c, sig=fails[0]["signature"]):
                    d2 = Driver()
                    try:
                        _, fl, _ = run_history(d2, c, struct=False, oracles=[o() for o in oracles])
                    finally:
                        d2.close()
                    return any(x["signature"] == sig for x in fl)
                small = shrink(hist, bad)
                res.failures.append({"signature": fails[0]["signature"], "what": fails[0]["what"],
                                     "case": {"suite": name, "hist": small, "detail": fails[0].get("detail")}})
                break
            if dis is not None and res.disagreement is None:
                def bad2(c):
                    d2 = Driver()
                    try:
                        ds, _, _ = run_history(d2, c, struct=struct)
                    finally:
                        d2.close()
                    return ds is not None
                small = shrink(hist, bad2)
                d2 = Driver()
                try:
                    dis2, _, _ = run_history(d2, small, struct=struct)
                finally:
                    d2.close()
                res.disagreement = {"hist": small, **(dis2 or dis)}
                # keep going: the remaining histories are still searched by the oracles for a failing input
    finally:
        d.close()
    res.counters = cnt
    return res


if __name__ == "__main__":
    import sys
    seed = int(sys.argv[1]) if len(sys.argv) > 1 else 0
    n = int(sys.argv[2]) if len(sys.argv) > 2 else 50
    r = run_suite("adhoc", seed, n, struct=True)
    print(json.dumps(r.to_json())[:600])
    if r.disagreement:
        dis = r.disagreement
        print("DISAGREEMENT at", dis["at"], dis.get("what"))
        print(" line :", dis.get("line", "")[:600])
        print(" model:", dis["model"][:1500])
        print(" impl :", dis["impl"][:1500])
        print(" cfg:", dis["hist"]["cfg"], "ops:", [o["op"] for o in dis["hist"]["ops"]])
