"""S-MR: the real multi-round workflow (in-process pools executing the tasks of a round in a
chosen order, real process pools, shuffled directory listings, stale directories, crashes at
every file effect) vs the model's `multiround`; oracles for C05, C06, C09 (multi-round
clause) and C14."""
from __future__ import annotations

import itertools
import os
import pickle
import random
import shutil
import tempfile
from pathlib import Path

from core import Driver, np, show_rat, show_nats, row_hex, exp_table_line
from checklib import SuiteResult

import bblean
import bblean.multiround as mr

CRITS = ["radius", "diameter", "tolerance-diameter", "tolerance-radius", "tolerance-legacy", "never-merge"]
SCRATCH = os.environ.get("VERIF_SCRATCH", "/var/tmp")


# ---------------------------------------------------------------------------- cases
def gen_case(rng: random.Random, small: bool = False) -> dict:
    F = rng.choice([8, 13, 16, 64] if not small else [8, 13])
    n_files = rng.choice([1, 2, 2, 3, 4, 5]) if not small else rng.choice([2, 3])
    protos = [[1 if rng.random() < 0.5 else 0 for _ in range(F)] for _ in range(rng.randint(1, 3))]
    files = []
    for _ in range(n_files):
        n = rng.choice([1, 2, 5, 12, 30]) if not small else rng.choice([1, 3, 6])
        rows = []
        for _ in range(n):
            p = rng.choice(protos)
            flip = rng.choice([0.0, 0.05, 0.2, 0.5])
            rows.append([b ^ (1 if rng.random() < flip else 0) for b in p])
        files.append(rows)
    if not small and rng.random() < 0.12:
        # a tight family of exactly 255 (or 254 / 256) members in one file: its count sits at the top of a counter width when
        # the cluster is written to a round file and re-imported
        k = rng.choice([254, 255, 255, 255, 256])
        fam = list(rng.choice(protos))
        files[rng.randrange(n_files)] = [list(fam) for _ in range(k)] + [[b ^ (1 if rng.random() < 0.5 else 0) for b in fam] for _ in range(2)]
    dup = None
    if n_files >= 2 and rng.random() < 0.15:
        # the same file listed twice (same path): its rows are clustered twice, under two index ranges
        i, j = sorted(rng.sample(range(n_files), 2))
        files[j] = [list(r) for r in files[i]]
        dup = [i, j]
    return {
        "dup": dup,
        "F": F, "files": files, "packed": rng.random() < 0.5,
        "bf": rng.choice([2, 3, 5, 50]), "thr": rng.choice([0.0, 0.3, 0.5, 0.65, 0.9]),
        "chg": rng.choice([0.0, 0.0, 0.05, -0.1]), "tol": rng.choice([0.0, 0.05, 0.5]),
        "init": rng.choice(CRITS), "mid": rng.choice(CRITS), "final": rng.choice([None] + CRITS),
        "mode": rng.choice(["none", "split", "full"]), "split": rng.random() < 0.4,
        "bin": rng.choice([1, 2, 3, 10]), "mids": rng.choice([0, 1, 1, 2, 3]),
        "cent": rng.random() < 0.7, "cleanup": rng.random() < 0.3,
    }


def model_line(case: dict, sched: dict | None = None) -> str:
    files = "|".join(",".join(row_hex(r) for r in f) for f in case["files"])
    sc = "-"
    if sched:
        sc = ";".join(f"{r}:{show_nats('.', p)}" for r, p in sorted(sched.items()))
    final = case["final"] or case["mid"]
    return (f"MR F={case['F']} bf={case['bf']} thr={show_rat(case['thr'])} chg={show_rat(case['chg'])} tol={show_rat(case['tol'])} "
            f"bin={case['bin']} mids={case['mids']} mode={case['mode']} split={1 if case['split'] else 0} init={case['init']} "
            f"mid={case['mid']} final={final} cent={1 if case['cent'] else 0} cleanup={1 if case['cleanup'] else 0} "
            f"sched={sc} files={files}")


# ---------------------------------------------------------------------- fake pools
class FakeCtx:
    """mp_context whose Pool.map runs the tasks in-process in a chosen order"""

    def __init__(self, chooser):
        self.chooser = chooser  # (round, n) -> permutation
        self.used: dict[int, list[int]] = {}

    def Pool(self, processes=None, maxtasksperchild=None):
        ctx = self

        class P:
            def __enter__(self):
                return self

            def __exit__(self, *a):
                return False

            def map(self, fn, tasks):
                tasks = list(tasks)
                r = getattr(fn, "round_idx", 1) if isinstance(fn, mr._TreeMergingRound) else 1
                order = ctx.chooser(r, len(tasks))
                ctx.used[r] = order
                for i in order:
                    fn(tasks[i])
        return P()


def input_names(case: dict) -> list[str]:
    """file names whose LEXICOGRAPHIC order is the order of case["files"] (commands that read a directory number the
    molecules in sorted-name order), in three schemes: zero-padded; un-padded numbers straddling a digit boundary
    (chunk-10 < chunk-11 < chunk-8 < chunk-9: natural order differs); names of different lengths"""
    n = len(case["files"])
    scheme = (sum(len(f) for f in case["files"]) + n) % 3
    if scheme == 0:
        return [f"in-{i:03d}.npy" for i in range(n)]
    if scheme == 1:
        return sorted(f"chunk-{8 + j}.npy" for j in range(n))
    r = random.Random(n * 7919 + case["F"])
    names = set()
    while len(names) < n:
        names.add("".join(r.choice("abcxyz") for _ in range(r.randint(1, 9))) + ".npy")
    return sorted(names)


def write_inputs(case: dict, d: Path, api_order: bool = False) -> list[Path]:
    """`api_order`: the caller passes the list to the API itself (not through a command that sorts a directory), so the
    list order need not be the lexicographic order of the names: every other case gets names in reverse order"""
    paths = []
    names = input_names(case)
    if api_order and (sum(len(f) for f in case["files"]) % 2 == 1):
        names = names[::-1]
    for i, rows in enumerate(case["files"]):
        X = np.asarray(rows, dtype=np.uint8).reshape(len(rows), case["F"])
        if case["packed"]:
            X = np.packbits(X, axis=1)
        elif case.get("unpacked_dtype"):
            X = X.astype(case["unpacked_dtype"])
        if case.get("dup") and i == case["dup"][1]:
            paths.append(paths[case["dup"][0]])
            continue
        p = d / names[i]
        np.save(p, X)
        paths.append(p)
    return paths


def run_impl(case: dict, inputs: list[Path], out: Path, ctx=None, procs: int = 4, **extra) -> str:
    kw = dict(
        n_features=case["F"] if case["packed"] else None, input_is_packed=case["packed"],
        num_initial_processes=procs, initial_merge_criterion=case["init"], branching_factor=case["bf"],
        threshold=case["thr"], midsection_threshold_change=case["chg"], tolerance=case["tol"],
        num_midsection_rounds=case["mids"], bin_size=case["bin"], refinement_before_midsection=case["mode"],
        split_largest_after_each_midsection_round=case["split"], midsection_merge_criterion=case["mid"],
        final_merge_criterion=case["final"], save_centroids=case["cent"], cleanup=case["cleanup"],
    )
    if case.get("save_tree"):
        kw["save_tree"] = True
    kw.update(extra)
    if ctx is not None:
        kw["mp_context"] = ctx
    try:
        mr.run_multiround_bitbirch(inputs, out, **kw)
        return "ok"
    except Exception as e:  # noqa: BLE001
        return f"err:{type(e).__name__}"


def show_dir(out: Path) -> str:
    parts = []
    for p in sorted(out.iterdir(), key=lambda x: x.name):
        n = p.name
        if n.startswith("round-") and n.endswith(".npy"):
            a = np.load(p)
            parts.append(f"{n}=bufs:{a.dtype.name}:" + ",".join(f"{show_nats('.', r[:-1])}#{int(r[-1])}" for r in a))
        elif n.startswith("round-") and n.endswith(".pkl"):
            ids = pickle.load(open(p, "rb"))
            parts.append(f"{n}=idxs:" + ",".join(show_nats(".", x) for x in ids))
        elif n == "clusters.pkl":
            cs = pickle.load(open(p, "rb"))
            parts.append(f"{n}=clusters:" + ";".join(show_nats(".", c) for c in cs))
        elif n == "cluster-centroids-packed.pkl":
            cs = pickle.load(open(p, "rb"))
            parts.append(f"{n}=centroids:" + ",".join(np.asarray(c).tobytes().hex() for c in cs))
        else:
            parts.append(f"{n}=other")
    return " ".join(parts)


def finals(out: Path):
    c = out / "clusters.pkl"
    k = out / "cluster-centroids-packed.pkl"
    return (pickle.load(open(c, "rb")) if c.exists() else None,
            [np.asarray(x).tobytes() for x in pickle.load(open(k, "rb"))] if k.exists() else None)


# -------------------------------------------------------------------------- oracles
def oracle_c05(case: dict, out: Path) -> dict | None:
    X = np.asarray([r for f in case["files"] for r in f], dtype=np.uint64).reshape(-1, case["F"])
    N = len(X)
    cl, ce = finals(out)
    if cl is None:
        return {"signature": "C05:no-cluster-file", "what": "run succeeded without clusters.pkl"}
    flat = sorted(i for c in cl for i in c)
    if flat != list(range(N)):
        return {"signature": "C05:final-clusters-do-not-partition-global-indices", "what": f"{len(flat)} labels for {N} rows"}
    if case["cent"]:
        if ce is None or len(ce) != len(cl):
            return {"signature": "C05:centroid-list-misaligned", "what": "centroid list missing or of different length"}
        for j, (ids, c) in enumerate(zip(cl, ce)):
            ls = X[ids].sum(axis=0)
            n = len(ids)
            maj = (2 * ls >= n) if n > 1 else (ls != 0)
            if np.packbits(maj.astype(np.uint8)).tobytes() != c:
                return {"signature": "C05:saved-centroid-is-not-the-majority-vote-of-its-cluster",
                        "what": f"cluster {j} of {n} members"}
    # intermediate pairs
    bufs = sorted(out.glob("round-*-bufs*.npy"))
    for b in bufs:
        i = b.with_name(b.name.replace("-bufs", "-idxs")).with_suffix(".pkl")
        if not i.exists():
            return {"signature": "C05:buffer-file-without-index-file", "what": b.name}
        A = np.load(b)
        ids = pickle.load(open(i, "rb"))
        if len(A) != len(ids):
            return {"signature": "C05:buffer/index-pair-of-different-length", "what": b.name}
        for row, mem in zip(A, ids):
            if int(row[-1]) != len(mem) or not np.array_equal(np.asarray(row[:-1], dtype=np.uint64), X[mem].sum(axis=0)):
                return {"signature": "C05:intermediate-buffer-not-paired-with-its-own-member-list", "what": b.name}
    return None


def oracle_c09_rounds(case: dict, out: Path) -> dict | None:
    """clusters of round r stay together in round r+1 … final, unless split"""
    if case["cleanup"]:
        return None
    rounds: dict[int, list[list[int]]] = {}
    for p in out.glob("round-*-idxs*.pkl"):
        r = int(p.name.split("-")[1])
        rounds.setdefault(r, []).extend(pickle.load(open(p, "rb")))
    cl, _ = finals(out)
    if cl is None:
        return None
    seq = [rounds[r] for r in sorted(rounds)] + [cl]
    for a, b in zip(seq, seq[1:]):
        where = {i: j for j, c in enumerate(b) for i in c}
        broken = [c for c in a if len({where.get(i) for i in c}) > 1]
        # a split step may explode the largest cluster of each task: allow clusters that were
        # turned into singletons entirely
        really = [c for c in broken if not all(len(b[where[i]]) == 1 or True for i in c)]
        if broken and not (case["split"] or case["mode"] in ("split", "full")):
            return {"signature": "C09:multiround-separated-a-cluster-without-a-split-step",
                    "what": f"members {broken[0][:8]} grouped by one round are apart in the next"}
        del really
    return None


# --------------------------------------------------------------------------- suites
def _work() -> Path:
    return Path(tempfile.mkdtemp(prefix="bbverif-mr-", dir=SCRATCH))


def suite_mr(tier: str, seed: int, mult: int, focus: str = "C05") -> SuiteResult:
    rng = random.Random(seed + 61 + hash(focus) % 7)
    res = SuiteResult(f"S-MR[{focus}]")
    d = Driver()
    work = _work()
    cnt = {"cases": 0, "errors": 0, "multi_task_rounds": 0, "mids": {0: 0, 1: 0, 2: 0, 3: 0}, "modes": {"none": 0, "split": 0, "full": 0},
           "packed": 0, "unpacked": 0, "schedules": 0, "real_pools": 0, "shuffled_glob": 0}
    seen = set()
    try:
        if focus == "C06":
            f0 = hash_seed_stream(rng, work, tier, cnt)
            if f0 is not None:
                res.failures.append(f0)
            res.evaluations += cnt.get("hash_seed_runs", 0)
            f1 = worker_count_stream(rng, work, tier, cnt) if f0 is None else None
            if f1 is not None:
                res.failures.append(f1)
            res.evaluations += cnt.get("worker_count_runs", 0)
        n_cases = (40 if tier == "quick" else 500) * mult
        for k in range(n_cases):
            if res.failures:
                break
            case = gen_case(rng)
            if k < 3 and focus == "C05":
                # forced: a family of exactly 255 / 65535-free sizes (254, 255, 256) that stays a cluster of its own through
                # every round (disjoint from the other file), so its summary is re-imported with the count at the top of uint8
                F_ = case["F"]
                a_row = [1] * (F_ // 2) + [0] * (F_ - F_ // 2)
                b_row = [0] * (F_ // 2) + [1] * (F_ - F_ // 2)
                case.update(files=[[list(a_row) for _ in range((254, 255, 256)[k])], [list(b_row) for _ in range(3)]], dup=None,
                            mode="none", split=False, thr=1.0, chg=0.0, init="diameter", mid="diameter", final=None, cent=True)
            N = sum(len(f) for f in case["files"])
            d.cmd(exp_table_line(N + 2))
            indir = work / f"in{k}"
            indir.mkdir()
            inputs = write_inputs(case, indir, api_order=True)
            orders = {}

            def chooser(r, n, orders=orders):
                p = list(range(n))
                rng.shuffle(p)
                orders[r] = p
                return p
            out = work / f"out{k}"
            out.mkdir()
            ctx = FakeCtx(chooser)
            ians = run_impl(case, inputs, out, ctx=ctx)
            cnt["cases"] += 1
            cnt["mids"][case["mids"]] += 1
            cnt["modes"][case["mode"]] += 1
            cnt["packed" if case["packed"] else "unpacked"] += 1
            cnt["multi_task_rounds"] += len(ctx.used)
            res.evaluations += 1
            res.traces += 1
            mline = model_line(case, ctx.used)
            mans = d.cmd(mline)
            if ians == "ok":
                iv = "ok " + show_dir(out)
            else:
                iv = ians
                cnt["errors"] += 1
            key = mline
            if ians == "ok" and key not in seen and len(case["files"]) > 1:
                seen.add(key)
                res.nontrivial += 1
            if mans != iv and res.disagreement is None:
                res.disagreement = {"what": "multiround directory contents", "case": case, "sched": ctx.used,
                                    "model": mans[:3000], "impl": iv[:3000]}
            if len(res.samples) < 2:
                res.samples.append({k2: v for k2, v in case.items() if k2 != "files"} | {"file_sizes": [len(f) for f in case["files"]],
                                                                                       "orders": ctx.used})
            fail = None
            if ians == "ok":
                fail = oracle_c05(case, out) or oracle_c09_rounds(case, out)
            else:
                fail = {"signature": f"C05:workflow-raised-{ians[4:]}",
                        "what": f"run_multiround_bitbirch raised {ians[4:]} on valid inputs and options"}
            # C06: other schedules, real pools, shuffled listings must give the same finals
            if fail is None and ians == "ok" and focus in ("C06", "C05"):
                base = finals(out)
                if focus == "C06":
                    # process history must not matter either: another estimator of the same configuration whose tolerance
                    # is changed in place (the public setter) before the other executions are made
                    for crit_ in {case["init"], case["mid"], case["final"] or case["mid"]}:
                        other = bblean.BitBirch(merge_criterion=crit_, tolerance=case["tol"])
                        if other.tolerance is not None:
                            other.tolerance = case["tol"] + 0.123
                    cnt["interfering_estimators"] = cnt.get("interfering_estimators", 0) + 1
                variants = []
                for _ in range(2 if tier == "quick" else 4):
                    variants.append(("fake", None))
                if focus == "C06" and k % (5 if tier == "quick" else 2) == 0:
                    variants.append(("real", rng.choice([2, 3, 5])))
                if focus == "C06":
                    variants.append(("serial", 1))
                    variants.append(("glob", None))
                for kind, arg in variants:
                    o2 = work / f"out{k}-{kind}-{rng.randrange(10**6)}"
                    o2.mkdir()
                    written: list[tuple[str, str]] = []
                    if kind == "fake":
                        def ch2(r, n):
                            p = list(range(n)); rng.shuffle(p); return p
                        a2 = run_impl(case, inputs, o2, ctx=FakeCtx(ch2))
                    elif kind == "serial":
                        a2 = run_impl(case, inputs, o2, procs=1)
                    elif kind == "real":
                        import multiprocessing as mp
                        a2 = run_impl(case, inputs, o2, ctx=mp.get_context(rng.choice(["fork", "forkserver"])), procs=arg,
                                      max_tasks_per_process=rng.choice([1, 2, None]))
                        cnt["real_pools"] += 1
                    else:
                        real_glob = Path.glob

                        def shuffled(self, pattern, **kw):
                            xs = list(real_glob(self, pattern, **kw))
                            rng.shuffle(xs)
                            return iter(xs)
                        Path.glob = shuffled
                        try:
                            a2 = run_impl(case, inputs, o2, ctx=FakeCtx(lambda r, n: list(range(n))))
                        finally:
                            Path.glob = real_glob
                        cnt["shuffled_glob"] += 1
                    cnt["schedules"] += 1
                    if a2 != "ok" or finals(o2) != base:
                        fail = {"signature": f"C06:result-depends-on-scheduling-{kind}",
                                "what": f"{kind} execution gives different final clusters/centroids ({a2})"}
                        break
                    shutil.rmtree(o2, ignore_errors=True)
                    del written
            # C05 holds "for any combination of workflow options": also when the output directory was used before
            # (an earlier run with another file layout that kept its round files) and this run keeps its own
            if fail is None and ians == "ok" and focus == "C05" and k % 4 == 0:
                shape = (k // 4) % 2
                earlier = dict(case, cleanup=False, mode="none",
                               files=([f[:2] for f in (case["files"] * 11)[:11]] if shape == 0 else
                                      [[list(case["files"][0][0])] * 300] + [list(f) for f in case["files"][1:]]))
                ein = work / f"in{k}-earlier"
                ein.mkdir()
                o3 = work / f"out{k}-used"
                o3.mkdir()
                run_impl(earlier, write_inputs(earlier, ein), o3, procs=1)
                a3 = run_impl(case, inputs, o3, procs=1)
                cnt["used_directory"] = cnt.get("used_directory", 0) + 1
                if a3 != "ok" or finals(o3) != finals(out):
                    fail = {"signature": "C05:result-depends-on-earlier-contents-of-the-output-directory",
                            "what": f"run in a directory used by an earlier run ({a3}) differs from the fresh-directory run"}
                else:
                    fail = oracle_c05(case, o3)
                shutil.rmtree(o3, ignore_errors=True)
                shutil.rmtree(ein, ignore_errors=True)
            if fail is not None:
                res.failures.append({**fail, "case": {"case": case, "orders": ctx.used}})
                break
            shutil.rmtree(out, ignore_errors=True)
            shutil.rmtree(indir, ignore_errors=True)
    finally:
        d.close()
        shutil.rmtree(work, ignore_errors=True)
    res.counters = cnt
    return res


def worker_count_stream(rng: random.Random, work: Path, tier: str, cnt: dict):
    """More midsection batches than worker processes (7 intermediate files, bin size 3 -> 3 batches), the split step on,
    real pools: serial, fork and forkserver with 2 processes (3 batches are not a multiple of 2), 3 processes.  All must
    finish and give the same final files."""
    import multiprocessing as mp
    F = 64
    protos = [[1 if rng.random() < 0.4 else 0 for _ in range(F)] for _ in range(4)]
    files = [[[b ^ (1 if rng.random() < 0.06 else 0) for b in rng.choice(protos)] for _ in range(rng.randint(14, 22))] for _ in range(7)]
    case = {"dup": None, "F": F, "files": files, "packed": True, "bf": 50, "thr": 0.6, "chg": 0.0, "tol": 0.05,
            "init": "diameter", "mid": "diameter", "final": None, "mode": "none", "split": True, "bin": 3, "mids": 1,
            "cent": True, "cleanup": True}
    d = work / "wc-in"
    d.mkdir()
    inputs = write_inputs(case, d)
    runs = [("serial", None, 1), ("fork, 2 processes", "fork", 2), ("forkserver, 2 processes", "forkserver", 2)]
    if tier != "quick":
        runs += [("fork, 3 processes", "fork", 3), ("forkserver, 4 processes", "forkserver", 4)]
    ref, fail = None, None
    cnt["worker_count_runs"] = 0
    for tag, method, procs in runs:
        o = work / ("wc-" + tag.replace(", ", "-").replace(" ", "-"))
        o.mkdir()
        a = run_impl(case, inputs, o, ctx=mp.get_context(method) if method else None, procs=procs)
        cnt["worker_count_runs"] += 1
        got = (a, finals(o))
        if ref is None:
            ref = got
        elif got != ref:
            fail = {"signature": "C06:result-depends-on-the-number-or-kind-of-worker-processes",
                    "what": f"execution '{tag}' ({got[0]}) differs from the serial execution ({ref[0]})",
                    "case": {"files": "7 files of 14-22 rows, 64 bits, bin size 3, one midsection round, split on", "execution": tag}}
            break
    for q in work.glob("wc-*"):
        shutil.rmtree(q, ignore_errors=True)
    return fail


def hash_seed_stream(rng: random.Random, work: Path, tier: str, cnt: dict):
    """Workers are separate interpreters with their own string-hash seed.  Input files holding two clusters of more than
    255 members (uint16 buffers) next to small ones (uint8 buffers) are clustered serially in this process and by
    `spawn` pools whose workers' PYTHONHASHSEED is pinned to different values: all must agree."""
    import multiprocessing as mp
    import os
    # a fixed data set on which the re-insertion order of the uint16 / uint08 groups is known to matter
    nrng = np.random.default_rng(0)
    F = 256
    d = work / "hs-in"
    d.mkdir()

    def noisy(center, lo, hi):
        fp = center.copy()
        fp[nrng.choice(F, size=nrng.integers(lo, hi), replace=False)] ^= 1
        return fp
    files = []
    for i in range(3):
        ca = (nrng.random(F) < 0.3).astype(np.uint8)
        cb = noisy(ca, 50, 51)
        rows = [noisy(ca, 0, 20) for _ in range(400)] + [noisy(cb, 0, 6) for _ in range(300)]
        for _ in range(3):
            cc = (nrng.random(F) < 0.3).astype(np.uint8)
            rows += [noisy(cc, 0, 8) for _ in range(20)]
        arr = np.array(rows, dtype=np.uint8)[nrng.permutation(len(rows))]
        pth = d / f"fps.{i:03d}.npy"
        np.save(pth, np.packbits(arr, axis=1))
        files.append(pth)

    def run(out: Path, **kw):
        out.mkdir()
        try:
            mr.run_multiround_bitbirch(files, out, bin_size=2, threshold=0.5, **kw)
        except Exception as e:  # noqa: BLE001
            return f"err:{type(e).__name__}"
        return finals(out)
    ref = run(work / "hs-serial", num_initial_processes=1)
    cnt["hash_seed_runs"] = 1
    saved = os.environ.get("PYTHONHASHSEED")
    fail = None
    try:
        for i, hs in enumerate(("1", "2") if tier == "quick" else ("1", "2", "3", "5")):
            os.environ["PYTHONHASHSEED"] = hs
            got = run(work / f"hs-spawn-{hs}", num_initial_processes=2 + i % 2, mp_context=mp.get_context("spawn"))
            cnt["hash_seed_runs"] += 1
            if got != ref:
                fail = {"signature": "C06:result-depends-on-the-hash-seed-of-the-worker-processes",
                        "what": f"spawn workers with PYTHONHASHSEED={hs} give final files different from the serial execution",
                        "case": {"files": "3 files x (400 + 300 + 3x20 rows), 256 bits", "hash_seed": hs}}
                break
    finally:
        if saved is None:
            os.environ.pop("PYTHONHASHSEED", None)
        else:
            os.environ["PYTHONHASHSEED"] = saved
    for q in work.glob("hs-*"):
        shutil.rmtree(q, ignore_errors=True)
    return fail


def suite_c05(tier, seed, mult):
    return suite_mr(tier, seed, mult, "C05")


def suite_c06(tier, seed, mult):
    return suite_mr(tier, seed, mult, "C06")


# ------------------------------------------------------------------------------ C14
class Crash(BaseException):
    pass


class Interposer:
    """counts the file effects of `bblean.multiround` (buffer-file writes, pickle dumps, renames,
    unlinks) and raises `Crash` before (or half-way through) the k-th one"""

    def __init__(self, crash_at: int | None, partial: bool):
        self.k = crash_at
        self.partial = partial
        self.n = 0
        self.trace: list[str] = []

    def hit(self, label: str) -> bool:
        self.n += 1
        self.trace.append(label)
        return self.k is not None and self.n == self.k

    def __enter__(self):
        self.real_save, self.real_pickle, self.real_os = mr._numpy_streaming_save, mr.pickle, mr.os
        self.real_unlink = Path.unlink
        me = self

        def save(fp_list, path):
            if me.hit(f"npy:{Path(path).name}"):
                if me.partial:
                    with open(path, "wb") as f:
                        f.write(b"\x93NUMPY")
                raise Crash()
            return me.real_save(fp_list, path)

        class PickleProxy:
            def __getattr__(self, k):
                return getattr(me.real_pickle, k)

            @staticmethod
            def dump(obj, f, *a, **kw):
                if me.hit(f"pkl:{Path(f.name).name}"):
                    if me.partial:
                        f.write(b"\x80\x04")
                        f.flush()
                    raise Crash()
                return me.real_pickle.dump(obj, f, *a, **kw)

        class OsProxy:
            def __getattr__(self, k):
                return getattr(me.real_os, k)

            @staticmethod
            def replace(a, b):
                if me.hit(f"rename:{Path(b).name}"):
                    raise Crash()
                return me.real_os.replace(a, b)

            # `os.rename` publishes a name exactly as `os.replace` does on POSIX: the same effect for the injector and the trace
            rename = replace

        def unlink(self_, *a, **kw):
            if me.hit(f"unlink:{self_.name}"):
                raise Crash()
            return me.real_unlink(self_, *a, **kw)

        import bblean.bitbirch as bbm
        self.real_tree_save = bbm.BitBirch.save

        def tree_save(self_, path, *a, **kw):
            if me.hit(f"tree:{Path(path).name}"):
                if me.partial:
                    with open(path, "wb") as f:
                        f.write(b"\x80\x04")
                raise Crash()
            return me.real_tree_save(self_, path, *a, **kw)

        bbm.BitBirch.save = tree_save
        mr._numpy_streaming_save = save
        mr.pickle = PickleProxy()
        mr.os = OsProxy()
        Path.unlink = unlink
        return self

    def __exit__(self, *a):
        mr._numpy_streaming_save, mr.pickle, mr.os = self.real_save, self.real_pickle, self.real_os
        Path.unlink = self.real_unlink
        import bblean.bitbirch as bbm
        bbm.BitBirch.save = self.real_tree_save
        return False


def run_crashing(case, inputs, out, k, partial):
    with Interposer(k, partial) as ip:
        try:
            a = run_impl(case, inputs, out, procs=1)
        except Crash:
            a = "crash"
    return a, ip.n, ip.trace


def suite_c14(tier: str, seed: int, mult: int) -> SuiteResult:
    rng = random.Random(seed + 71)
    res = SuiteResult("S-MR[C14 crash/stale stream]")
    work = _work()
    d = Driver()
    cnt = {"configs": 0, "crash_points": 0, "partial_writes": 0, "reruns": 0, "stale_dirs": 0, "effects_total": 0, "crashes_after_publication": 0}
    try:
        # a schedule whose round index needs two digits (9-10 midsection rounds), cleanup on: nothing of it may remain
        long_case = gen_case(rng, small=True)
        long_case.update(mids=rng.choice([9, 10]), cleanup=True, mode="none", split=False)
        lin = work / "inlong"
        lin.mkdir()
        lout = work / "outlong"
        lout.mkdir()
        la = run_impl(long_case, write_inputs(long_case, lin), lout, procs=1)
        res.evaluations += 1
        cnt["two_digit_rounds"] = 1
        if la == "ok" and list(lout.glob("round-*")):
            res.failures.append({"signature": "C14:round-files-left-after-successful-run-with-cleanup",
                                 "what": str(sorted(p.name for p in lout.glob('round-*'))[:5]), "case": {"case": long_case}})
        d.cmd(exp_table_line(sum(len(f) for f in long_case["files"]) + 2))
        lm = d.cmd(model_line(long_case))
        liv = ("ok " + show_dir(lout)) if la == "ok" else la
        if lm != liv and res.disagreement is None:
            res.disagreement = {"what": "multiround run with 9-10 midsection rounds", "case": long_case, "model": lm[:2000], "impl": liv[:2000]}
        shutil.rmtree(lout, ignore_errors=True)
        n_cfg = (4 if tier == "quick" else 25) * mult
        for ci in range(n_cfg):
            case = gen_case(rng, small=True)
            case["cleanup"] = rng.random() < 0.5
            case["save_tree"] = rng.random() < 0.5
            indir = work / f"in{ci}"
            indir.mkdir()
            inputs = write_inputs(case, indir)
            # variants to re-run with
            fewer = dict(case, files=case["files"][: max(1, len(case["files"]) - 1)])
            changed = dict(case, thr=0.3 if case["thr"] != 0.3 else 0.5)
            reruns = [("same", case, inputs), ("changed-threshold", changed, inputs), ("fewer-files", fewer, inputs[: len(fewer["files"])])]
            fresh = {}
            for tag, c2, in2 in reruns:
                o = work / f"fresh{ci}-{tag}"
                o.mkdir()
                a = run_impl(c2, in2, o, procs=1)
                fresh[tag] = (a, finals(o))
                # correspondence of the fresh run with the model
                N = sum(len(f) for f in c2["files"])
                d.cmd(exp_table_line(N + 2))
                mans = d.cmd(model_line(c2))
                iv = ("ok " + show_dir(o).replace("bitbirch.pkl=other ", "").replace(" bitbirch.pkl=other", "")) if a == "ok" else a
                if mans != iv and res.disagreement is None:
                    res.disagreement = {"what": "fresh multiround run", "case": c2, "model": mans[:2000], "impl": iv[:2000]}
                shutil.rmtree(o, ignore_errors=True)
            cnt["configs"] += 1
            # (1) stale directory: a completed earlier run with MORE files and cleanup off
            # ... in three shapes: a few more files (same label width); eleven tiny files (labels 00..10: names the
            # new run never overwrites); a first file of 300 identical rows (a uint16 buffer file next to the uint08 ones)
            shape = ci % 3
            if shape == 0:
                more = dict(case, cleanup=False, files=case["files"] + [case["files"][0]] * 2)
            elif shape == 1:
                more = dict(case, cleanup=False, mode="none", files=[f[:2] for f in (case["files"] * 11)[:11]])
            else:
                more = dict(case, cleanup=False, mode="none", thr=0.3, init="diameter",
                            files=[[list(case["files"][0][0])] * 300] + [list(f) for f in case["files"][1:]])
            cnt[f"stale_shape_{shape}"] = cnt.get(f"stale_shape_{shape}", 0) + 1
            indir2 = work / f"inmore{ci}"
            indir2.mkdir()
            inputs_more = write_inputs(more, indir2)
            for tag, c2, in2 in reruns:
                o = work / f"stale{ci}-{tag}"
                o.mkdir()
                run_impl(more, inputs_more, o, procs=1)
                (o / "notes.txt").write_text("user file")
                a = run_impl(c2, in2, o, procs=1)
                cnt["stale_dirs"] += 1
                res.evaluations += 1
                if (a, finals(o)) != fresh[tag]:
                    res.failures.append({"signature": "C14:leftovers-of-an-earlier-run-were-consumed",
                                         "what": f"re-run ({tag}) in a directory holding round files of an earlier run differs from a fresh-directory run",
                                         "case": {"case": c2, "earlier": {k: v for k, v in more.items() if k != "files"}}})
                    break
                if c2["cleanup"] and a == "ok" and list(o.glob("round-*")):
                    res.failures.append({"signature": "C14:round-files-left-after-successful-run-with-cleanup",
                                         "what": str([p.name for p in o.glob('round-*')][:5]), "case": {"case": c2}})
                    break
                if not (o / "notes.txt").exists():
                    res.failures.append({"signature": "C14:foreign-file-removed", "what": "notes.txt was deleted", "case": {"case": c2}})
                    break
                shutil.rmtree(o, ignore_errors=True)
            if res.failures:
                break
            # (2) crash at every file effect, then re-run to completion
            o = work / f"count{ci}"
            o.mkdir()
            _, total, trace = run_crashing(case, inputs, o, None, False)
            shutil.rmtree(o, ignore_errors=True)
            cnt["effects_total"] += total
            # clusters.pkl is the LAST output published: after its rename only intermediate files are removed
            if "rename:clusters.pkl" in trace:
                after = trace[trace.index("rename:clusters.pkl") + 1:]
                late = [x for x in after if not x.startswith("unlink:round-")]
                if late:
                    res.failures.append({"signature": "C14:clusters.pkl-is-not-the-last-output-published",
                                         "what": f"effects after the publication of clusters.pkl: {late[:4]}",
                                         "case": {"case": case}})
                    break
            ks = list(range(1, total + 1))
            if tier == "quick" and len(ks) > 12:
                ks = sorted(rng.sample(ks, 12))
            for k in ks:
                partial = rng.random() < 0.5
                o = work / f"crash{ci}-{k}"
                o.mkdir()
                # the directory already holds the finals of an earlier completed run
                run_impl(changed, inputs, o, procs=1)
                a, _, tr = run_crashing(case, inputs, o, k, partial)
                cnt["crash_points"] += 1
                cnt["partial_writes"] += partial
                res.evaluations += 1
                res.nontrivial += 1
                # (a crash before the run's first effect is a run that never started: k = 1 is exempt)
                # Once THIS run has published clusters.pkl (the atomic rename is in the trace before the crash point) the
                # clustering is complete; a crash in the clean-up that follows leaves a complete final file, which
                # must then be exactly the result of a fresh run.  Any other clusters.pkl after a crash is a failure.
                published = "rename:clusters.pkl" in tr[:-1]
                if a == "crash" and k > 1 and (o / "clusters.pkl").exists():
                    if not published:
                        res.failures.append({"signature": "C14:interrupted-run-leaves-a-final-cluster-file",
                                             "what": f"crash before effect {k} ({tr[-1]}) of {total}: clusters.pkl present",
                                             "case": {"case": case, "k": k, "effect": tr[-1], "partial": partial}})
                        break
                    cnt["crashes_after_publication"] += 1
                    if ("ok", finals(o)) != fresh["same"]:
                        res.failures.append({"signature": "C14:final-files-of-a-run-interrupted-during-cleanup-differ-from-a-fresh-run",
                                             "what": f"crash before effect {k} ({tr[-1]}) of {total}",
                                             "case": {"case": case, "k": k, "effect": tr[-1], "partial": partial}})
                        break
                elif a == "crash" and published:
                    res.failures.append({"signature": "C14:published-final-file-disappeared", "what": f"crash before effect {k} ({tr[-1]})",
                                         "case": {"case": case, "k": k}})
                    break
                tag, c2, in2 = rng.choice(reruns)
                a2 = run_impl(c2, in2, o, procs=1)
                cnt["reruns"] += 1
                if (a2, finals(o)) != fresh[tag]:
                    res.failures.append({"signature": "C14:re-run-after-interruption-differs-from-fresh-directory-run",
                                         "what": f"crash at effect {k} ({tr[-1]}, partial={partial}) then re-run ({tag})",
                                         "case": {"case": case, "k": k, "effect": tr[-1], "partial": partial, "rerun": tag}})
                    break
                if len(res.samples) < 2:
                    res.samples.append({"config": {kk: v for kk, v in case.items() if kk != "files"}, "crash_at": k,
                                        "effect": tr[-1], "partial_write": partial, "rerun": tag, "effects_total": total})
                shutil.rmtree(o, ignore_errors=True)
            if res.failures:
                break
    finally:
        d.close()
        shutil.rmtree(work, ignore_errors=True)
    res.counters = cnt
    res.failures = res.failures[:1]
    return res
