"""S-LEGACY: three-way differential bblean / _legacy.bb_uint8 / _legacy.bb_int64 on 2048-bit
inputs for the criteria they share; cases on which a legacy variant raises an invalid
floating-point condition (0/0 on all-zero fingerprints or centroids) are dropped and counted."""
from __future__ import annotations

import random
import warnings

from core import np
from checklib import SuiteResult

from bblean.bitbirch import BitBirch
import bblean._legacy.bb_uint8 as L8
import bblean._legacy.bb_int64 as L64
from bblean.fingerprints import make_fake_fingerprints

PAIRS = [("radius", "radius"), ("diameter", "diameter"), ("tolerance-legacy", "tolerance")]


def gen_data(rng: random.Random, n: int, F: int = 2048):
    kind = rng.choice(["fake", "fake", "proto", "mixed"])
    seed = rng.randrange(2 ** 32)
    X = make_fake_fingerprints(n, n_features=F, seed=seed, pack=False)
    if kind in ("proto", "mixed"):
        r = np.random.default_rng(seed)
        protos = X[: rng.randint(2, 6)]
        rows = []
        for _ in range(n):
            p = protos[r.integers(len(protos))].copy()
            flip = r.random(F) < rng.choice([0.0, 0.01, 0.05, 0.2])
            p[flip] ^= 1
            rows.append(p)
        Y = np.asarray(rows, dtype=np.uint8)
        X = Y if kind == "proto" else np.concatenate([X[: n // 2], Y[: n - n // 2]])
    return np.ascontiguousarray(X.astype(np.uint8))


def suite_legacy(tier: str, seed: int, mult: int) -> SuiteResult:
    rng = random.Random(seed + 53)
    res = SuiteResult("S-LEGACY")
    cnt = {"cases": 0, "dropped_legacy_raised": 0, "multi_member": 0}
    n_cases = (6 if tier == "quick" else 60) * mult
    for _ in range(n_cases):
        n = rng.choice([60, 150, 300] if tier == "quick" else [60, 150, 300, 800])
        X = gen_data(rng, n)
        thr = rng.choice([0.3, 0.5, 0.65, 0.8])
        bf = rng.choice([5, 10, 50])
        tol = rng.choice([0.0, 0.05, 0.2])
        for lean_name, legacy_name in PAIRS:
            t = BitBirch(threshold=thr, branching_factor=bf, merge_criterion=lean_name, tolerance=tol)
            t.fit(X, input_is_packed=False)
            want = t.get_cluster_mol_ids()
            outs = {}
            dropped = False
            for tag, mod, arr in (("uint8", L8, X), ("int64", L64, X.astype(np.int64))):
                try:
                    with np.errstate(invalid="raise", divide="raise"), warnings.catch_warnings():
                        warnings.simplefilter("ignore")
                        mod.set_merge(legacy_name, tol)
                        lt = mod.BitBirch(threshold=thr, branching_factor=bf)
                        lt.fit(arr, input_is_packed=False, n_features=2048) if tag == "uint8" else lt.fit(arr)
                        outs[tag] = lt.get_cluster_mol_ids()
                except FloatingPointError:
                    dropped = True
            cnt["cases"] += 1
            res.evaluations += 1
            if dropped:
                cnt["dropped_legacy_raised"] += 1
                continue
            if any(len(c) > 1 for c in want):
                cnt["multi_member"] += 1
                res.nontrivial += 1
            for tag, got in outs.items():
                if [list(map(int, c)) for c in got] != [list(map(int, c)) for c in want]:
                    res.failures.append({"signature": f"C07:differs-from-legacy-{tag}-{lean_name}",
                                         "what": f"bblean and _legacy.bb_{tag} disagree for criterion {lean_name}, thr={thr}, bf={bf}, tol={tol}, n={n}",
                                         "case": {"thr": thr, "bf": bf, "tol": tol, "crit": lean_name, "n": n,
                                                  "rows_packed_hex": [np.packbits(r).tobytes().hex() for r in X[:400]]}})
                    break
            if len(res.samples) < 2:
                res.samples.append({"crit": lean_name, "thr": thr, "bf": bf, "n": n, "clusters": len(want),
                                    "largest": len(want[0]) if want else 0})
        if res.failures:
            break
    res.counters = cnt
    res.failures = res.failures[:1]
    return res
