"""suites of the tree / estimator properties (C01, C02, C03, C07, C08, C09, C17, C18)"""
from __future__ import annotations

import oracles
from suites.tree import run_suite


def _n(tier: str, quick: int, thorough: int, mult: int) -> int:
    return (quick if tier == "quick" else thorough) * mult


def c01(tier, seed, mult):
    return run_suite("S-TREE-OUT[C01]", seed, _n(tier, 500, 6000, mult), struct=False, oracles=(oracles.C01,))


def c02(tier, seed, mult):
    return run_suite("S-TREE-OUT[C02]", seed + 1, _n(tier, 500, 6000, mult), struct=False, oracles=(oracles.C02,))


def c03(tier, seed, mult):
    return run_suite("S-TREE-OUT[C03]", seed + 2, _n(tier, 500, 6000, mult), struct=False, oracles=(oracles.C03,))


def c08(tier, seed, mult):
    return run_suite("S-TREE-STRUCT[C08]", seed + 3, _n(tier, 300, 3000, mult), struct=True, oracles=(oracles.C08,),
                     per_insert_every=4)


def c09(tier, seed, mult):
    return run_suite("S-TREE-OUT[C09]", seed + 4, _n(tier, 500, 6000, mult), struct=False, oracles=(oracles.C09,),
                     gen_kw={"allow": ("fit", "refine", "recluster", "setmerge", "setthr", "delint")})


def c07(tier, seed, mult):
    return run_suite("S-TREE-OUT[C07]", seed + 5, _n(tier, 500, 6000, mult), struct=False,
                     gen_kw={"allow": ("fit", "setmerge", "setthr", "setbf", "reset"), "malformed": 0.0})


def c17(tier, seed, mult):
    return run_suite("S-TREE-OUT[C17 config stream]", seed + 6, _n(tier, 500, 6000, mult), struct=False, oracles=(oracles.C17,),
                     max_rows=12,
                     gen_kw={"allow": ("fit", "setmerge", "setthr", "setbf", "reset", "refine"), "objects": 0.3, "malformed": 0.0,
                             "weights": {"fit": 3, "refine": 1, "setmerge": 7, "setthr": 1, "setbf": 1, "reset": 2}})
