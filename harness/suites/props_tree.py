"""suites of the tree / estimator properties (C01, C02, C03, C07, C08, C09, C17, C18)"""
from __future__ import annotations

import oracles
from suites.tree import run_suite


def _n(tier: str, quick: int, thorough: int, mult: int) -> int:
    return (quick if tier == "quick" else thorough) * mult


def c01(tier, seed, mult):
    return run_suite("S-TREE-OUT[C01]", seed, _n(tier, 500, 6000, mult), struct=False, oracles=(oracles.C01,))


def c02(tier, seed, mult):
    return run_suite("S-TREE-OUT[C02]", seed + 1, _n(tier, 500, 6000, mult), struct=False, oracles=(oracles.C02,))


def c03(tier, seed, mult):
    return run_suite("S-TREE-OUT[C03]", seed + 2, _n(tier, 500, 6000, mult), struct=False, oracles=(oracles.C03,))


def c08(tier, seed, mult):
    return run_suite("S-TREE-STRUCT[C08]", seed + 3, _n(tier, 300, 3000, mult), struct=True, oracles=(oracles.C08,),
                     per_insert_every=4)


def c09(tier, seed, mult):
    return run_suite("S-TREE-OUT[C09]", seed + 4, _n(tier, 500, 6000, mult), struct=False, oracles=(oracles.C09,),
                     gen_kw={"allow": ("fit", "refine", "recluster", "setmerge", "setthr", "delint")})


def c07(tier, seed, mult):
    res = run_suite("S-TREE-OUT[C07]", seed + 5, _n(tier, 500, 6000, mult), struct=False,
                    gen_kw={"allow": ("fit", "setmerge", "setthr", "setbf", "reset"), "malformed": 0.0})
    # C07 states "the clustering equals that of the reference procedure": the model with the reference policy IS that
    # procedure (theorems C07_route ... C07_mask), so a history on which the public observables differ is a failing input
    if res.disagreement is not None and not res.failures:
        dis = res.disagreement
        res.failures.append({"signature": "C07:clustering-differs-from-the-reference-procedure",
                             "what": f"after operation {dis.get('at')} ({dis.get('what', 'public observables')}): reference {str(dis.get('model'))[:300]} "
                                     f"/ library {str(dis.get('impl'))[:300]}",
                             "case": {"hist": dis.get("hist"), "at": dis.get("at")}})
    return res


def c17(tier, seed, mult):
    return run_suite("S-TREE-OUT[C17 config stream]", seed + 6, _n(tier, 500, 6000, mult), struct=False, oracles=(oracles.C17,),
                     max_rows=12,
                     gen_kw={"allow": ("fit", "setmerge", "setthr", "setbf", "reset", "refine"), "objects": 0.3, "malformed": 0.0,
                             "weights": {"fit": 3, "refine": 1, "setmerge": 7, "setthr": 1, "setbf": 1, "reset": 2}})


def c17_objects(tier, seed, mult):
    """C17 on merge-function OBJECTS the model does not distinguish (non-default n_max / decay / adaptive, user subclasses
    that inherit a built-in name): oracle only.  Whatever the estimator held before, `set_merge(name[, tolerance])` must
    leave it behaving exactly like `BitBirch(merge_criterion=name, tolerance=...)`, and a tolerance chosen earlier must
    survive every `set_merge` that does not name one (also through criteria that merely carry a tolerance)."""
    import random as _r
    import numpy as _np
    import bblean as _bb
    from bblean import _merges as M
    from checklib import SuiteResult
    rng = _r.Random(seed + 1717)
    res = SuiteResult("S-C17-OBJECTS")
    cnt = {"custom_object_then_same_name": 0, "tolerance_kept_through": 0}

    class Greedy(M.ToleranceDiameterMerge):          # inherits name = "tolerance-diameter"
        def __call__(self, *a):
            return True

    def probe(est):
        rs = _np.random.default_rng(5)
        protos = (rs.random((4, 64)) < 0.4)
        X = _np.packbits(_np.array([p ^ (rs.random(64) < 0.08) for p in protos for _ in range(12)], dtype=_np.uint8), axis=1)
        est.fit(X)
        return est.get_cluster_mol_ids()

    def describe(fn):
        return (type(fn).__name__, getattr(fn, "tolerance", None), getattr(fn, "decay", None), getattr(fn, "offset", None))
    n = (60 if tier == "quick" else 1500) * mult
    for _ in range(n):
        tol = rng.choice([0.0, 0.05, 0.2, 0.7])
        thr = rng.choice([0.3, 0.5, 0.65])
        kind = rng.choice(["nonadaptive", "nmax", "subclass", "radius-nonadaptive"])
        if kind == "nonadaptive":
            obj, name = M.ToleranceDiameterMerge(tol, adaptive=False), "tolerance-diameter"
        elif kind == "nmax":
            obj, name = M.ToleranceDiameterMerge(tol, n_max=10, decay=0.5), "tolerance-diameter"
        elif kind == "subclass":
            obj, name = Greedy(tol), "tolerance-diameter"
        else:
            obj, name = M.ToleranceRadiusMerge(tol, adaptive=False), "tolerance-radius"
        give_tol = rng.choice([None, tol, 0.33])
        e1 = _bb.BitBirch(merge_criterion=obj, threshold=thr, branching_factor=rng.choice([3, 50]))
        e1.set_merge(name) if give_tol is None else e1.set_merge(name, tolerance=give_tol)
        want_tol = tol if give_tol is None else give_tol
        e2 = _bb.BitBirch(merge_criterion=name, tolerance=want_tol, threshold=thr, branching_factor=e1.branching_factor)
        cnt["custom_object_then_same_name"] += 1
        res.evaluations += 1
        res.nontrivial += 1
        case = {"object": kind, "tolerance": tol, "threshold": thr, "set_merge": [name, give_tol]}
        if describe(e1._merge_accept_fn) != describe(e2._merge_accept_fn) or probe(e1) != probe(e2):
            res.failures.append({"signature": "C17:set_merge-by-name-differs-from-the-constructor-route",
                                 "what": f"after set_merge({name!r}, tolerance={give_tol}) on an estimator holding a {kind} object: "
                                         f"{describe(e1._merge_accept_fn)} vs constructor {describe(e2._merge_accept_fn)}", "case": case})
            break
        # set_merge(tolerance=x) alone changes the tolerance and nothing else of the object the estimator holds
        e4 = _bb.BitBirch(merge_criterion=obj if kind != "subclass" else Greedy(tol), threshold=thr)
        before4 = describe(e4._merge_accept_fn)
        e4.set_merge(tolerance=0.27)
        after4 = describe(e4._merge_accept_fn)
        res.evaluations += 1
        if after4 != (before4[0], 0.27) + before4[2:]:
            res.failures.append({"signature": "C17:set_merge-tolerance-only-changed-more-than-the-tolerance",
                                 "what": f"{before4} -> {after4}", "case": case})
            break
        # a chosen tolerance survives set_merge calls that do not name one, whatever carries it in between
        path = [rng.choice(["tolerance-diameter", "tolerance-radius", "tolerance-legacy"])]
        path += rng.sample(["never-merge", "tolerance-radius", "tolerance-legacy", "tolerance-diameter", "obj"], rng.randint(1, 3))
        path.append(rng.choice(["tolerance-diameter", "tolerance-radius", "tolerance-legacy"]))
        e3 = _bb.BitBirch(merge_criterion=path[0], tolerance=0.41, threshold=thr)
        for step in path[1:]:
            if step == "obj":
                e3.set_merge(M.ToleranceRadiusMerge(0.41))
            else:
                e3.set_merge(step)
            if rng.random() < 0.3:
                e3.set_merge(threshold=rng.choice([0.2, 0.6]))
        cnt["tolerance_kept_through"] += 1
        res.evaluations += 1
        if e3.tolerance != 0.41:
            res.failures.append({"signature": "C17:set_merge-without-tolerance-changed-the-tolerance",
                                 "what": f"tolerance 0.41 became {e3.tolerance} along {path}", "case": {"path": path}})
            break
        if len(res.samples) < 2:
            res.samples.append(case | {"path": path})
    res.counters = cnt
    return res
