"""S-FILES: the fingerprint-file utilities (`bb fps-from-smiles`, `fps-split`, `fps-merge`,
`fps-shuffle`, `fps-info`, the file-sequence indexer) on generated inputs, against the
in-process API (`fps_from_smiles`) and against the model (driver commands PARTS, SPLITMERGE,
FILESEQ)."""
from __future__ import annotations

import os
import random
import shutil
import subprocess
import tempfile
from pathlib import Path

from core import Driver, np, show_nats
from checklib import SuiteResult, is_known

SCRATCH = os.environ.get("VERIF_SCRATCH", "/var/tmp")
BB = "/venv/bin/bb"

TAILS = ["", "O", "N", "Cl", "Br", "F", "=O", "C#N", "c1ccccc1", "C(=O)O", "S", "OC", "N(C)C", "c1ccncc1"]
INVALID = ["C1CC", "xyz", "C(C)(C)(C)(C)(C)C", "c1ccccc", "[Xx]", "C(("]


def valid_pool() -> list[str]:
    return [("C" * n) + t for n in range(1, 9) for t in TAILS]


def gen_smiles(rng: random.Random, n: int, p_invalid: float) -> tuple[list[str], list[int]]:
    pool = valid_pool()
    out, bad = [], []
    for i in range(n):
        if rng.random() < p_invalid:
            out.append(rng.choice(INVALID))
            bad.append(i)
        else:
            out.append(rng.choice(pool))
    return out, bad


def _runner():
    from typer.testing import CliRunner
    from bblean.cli import app
    return CliRunner(), app


def _fail(res, sig, what, case):
    """record one failure per signature; a listed known finding does not stop the search"""
    if all(f["signature"] != sig for f in res.failures):
        res.failures.append({"signature": sig, "what": what, "case": case})


def _stop(res) -> bool:
    return any(is_known("C16", f["signature"]) is None for f in res.failures)


def _load_sorted(d: Path, prefix: str | None = None) -> list[tuple[str, "np.ndarray"]]:
    fs = sorted(p for p in d.glob("*.npy") if not p.name.startswith("invalid-") and (prefix is None or p.name.startswith(prefix)))
    return [(p.name, np.load(p)) for p in fs]


# ------------------------------------------------------------------- fps-from-smiles
def suite_smiles(tier: str, seed: int, mult: int) -> SuiteResult:
    from bblean.fingerprints import fps_from_smiles
    rng = random.Random(seed + 127)
    res = SuiteResult("S-FILES[fps-from-smiles]")
    work = Path(tempfile.mkdtemp(prefix="bbverif-fps-", dir=SCRATCH))
    d = Driver()
    cnt = {"runs": 0, "multi_part": 0, "multi_process_single_file": 0, "with_invalid": 0, "max_per_file": 0, "unpacked": 0,
           "several_smi_files": 0, "strict_runs_with_invalid_input": 0}
    try:
        for k in range((14 if tier == "quick" else 150) * mult):
            n = rng.choice([1, 2, 5, 9, 17, 40])
            skip = rng.random() < 0.6
            p_inv = rng.choice([0.0, 0.1, 0.4]) if skip else rng.choice([0.0, 0.0, 0.1])
            smiles, bad = gen_smiles(rng, n, p_inv)
            mode = rng.choice(["single", "parts", "parts", "max"])
            if k == 0:   # every run has one multi-part run that skips invalid entries
                n, skip, mode = 17, True, "parts"
                smiles, bad = gen_smiles(rng, n, 0.3)
                if not bad:
                    smiles[5], bad = INVALID[0], [5]
            if k == 1:   # ... and one single-file run that skips entries which parse but fail sanitisation
                n, skip, mode = 12, True, "single"
                smiles, bad = gen_smiles(rng, n, 0.0)
                for pos, bad_smi in zip((2, 7), ["C(C)(C)(C)(C)(C)C", "CN(C)(C)(C)C"]):   # parse, but fail sanitisation (valence)
                    smiles[pos] = bad_smi
                bad = sorted({2, 7} | set(bad))
            parts = rng.choice([2, 3, 4, 7, 9, 9, 11]) if mode == "parts" else None
            if parts == 9 and not (k == 0):
                # a count whose remainder exceeds the quotient (17 = 9*1 + 8, 26, 35, 44): a floor instead of a ceiling
                # would cut more than nine parts and break the name order
                n = rng.choice([17, 26, 35, 44])
                smiles, bad = gen_smiles(rng, n, p_inv)
            maxper = rng.choice([1, 3, 8, 50]) if mode == "max" else None
            ps = rng.choice([1, 2, 3, 8])
            pack = rng.random() < 0.6
            dtype = "uint8" if pack else rng.choice(["uint8", "uint16", "int64"])
            kind = rng.choice(["rdkit", "ecfp4", "ecfp6"])
            F = rng.choice([64, 256])
            nfiles = rng.choice([1, 1, 2]) if n > 1 else 1
            case = {"n": n, "invalid_at": bad, "mode": mode, "parts": parts, "max_per_file": maxper, "ps": ps, "pack": pack,
                    "dtype": dtype, "kind": kind, "F": F, "skip_invalid": skip, "smi_files": nfiles, "smiles": smiles}
            wd = work / f"c{k}"
            wd.mkdir()
            cut = rng.randint(1, n - 1) if nfiles == 2 else n
            smi_paths = []
            for j, chunk in enumerate([smiles[:cut], smiles[cut:]][:nfiles]):
                # the files are given explicitly: their order on the command line is the input order, whatever their names
                p = wd / (f"in{j}.smi" if k % 2 else ["zinc.smi", "chembl.smi"][j])
                p.write_text("".join(s + "\n" for s in chunk))
                smi_paths.append(p)
            out = wd / "out"
            args = [BB, "fps-from-smiles", *map(str, smi_paths), "-o", str(out), "--name", "fp", "-k", kind, "--n-features", str(F),
                    "--pack" if pack else "--no-pack", "-d", dtype, "--ps", str(ps), "--no-verbose",
                    "--skip-invalid" if skip else "--no-skip-invalid"]
            if parts is not None:
                args += ["-n", str(parts)]
            if maxper is not None:
                args += ["-m", str(maxper)]
            r = subprocess.run(args, capture_output=True, text=True, timeout=600, cwd=wd)
            cnt["runs"] += 1
            res.evaluations += 1
            cnt["multi_part"] += mode != "single"
            cnt["max_per_file"] += mode == "max"
            cnt["with_invalid"] += bool(bad)
            cnt["unpacked"] += not pack
            cnt["several_smi_files"] += nfiles > 1
            # the in-process API on the same strings
            try:
                if skip:
                    want, want_bad = fps_from_smiles(smiles, kind=kind, n_features=F, dtype=dtype, skip_invalid=True, pack=pack)
                    want_bad = [int(x) for x in want_bad]
                else:
                    want = fps_from_smiles(smiles, kind=kind, n_features=F, dtype=dtype, skip_invalid=False, pack=pack)
                    want_bad = []
                api_err = None
            except Exception as e:  # noqa: BLE001
                api_err = type(e).__name__
            if api_err is not None:
                cnt["strict_runs_with_invalid_input"] += 1
                if r.returncode == 0:
                    _fail(res, "C16:fps-from-smiles:invalid-smiles-accepted-without-skip-invalid", f"api raises {api_err}, command exits 0", case)
                shutil.rmtree(wd, ignore_errors=True)
                continue
            if want_bad != bad:
                res.notes.append(f"generator: api flags {want_bad}, generator intended {bad}")
            if r.returncode != 0:
                errs = [ln for ln in r.stderr.strip().splitlines() if "Error" in ln and not ln.startswith(" ")]
                last = (errs or r.stderr.strip().splitlines() or ["?"])[-1][:100]
                _fail(res, f"C16:fps-from-smiles:failed:{mode}:ps{'>1' if ps > 1 else '=1'}:{last.split(':')[0]}",
                      f"exit code {r.returncode}: {' '.join(args[2:])[:300]} :: {last}", case)
                shutil.rmtree(wd, ignore_errors=True)
                if _stop(res):
                    break
                continue
            files = _load_sorted(out, "fp")
            multi = len(files) > 1 or any(nm != "fp.npy" for nm, _ in files)
            cnt["multi_process_single_file"] += (not multi) and ps > 1
            got = np.concatenate([a for _, a in files]) if files else None
            if got is None or got.shape != want.shape or got.dtype != want.dtype or not (got == want).all():
                _fail(res, f"C16:fps-from-smiles:concatenation-differs-from-api:{mode}",
                      f"files {[(nm, a.shape) for nm, a in files]} vs api {want.shape} {want.dtype}", case)
            # part sizes: every part but the last holds exactly the batch size minus its invalid entries (model: PARTS)
            per = None
            if mode == "parts":
                per = -(-n // parts)
            elif mode == "max":
                per = maxper
            if per is not None:
                valid = "".join("0" if i in set(bad) else "1" for i in range(n))
                digits = len(str(parts if parts is not None else -(-n // maxper)))
                m = d.cmd(f"PARTS per={per} digits={digits} valid={valid} name=fp")
                try:
                    mv = dict(x.split("=", 1) for x in m.split(" ") if "=" in x and not x.startswith("fp"))
                    mparts = [(x.split("=")[0] + ".npy", len([y for y in x.split("=")[1].split(".") if y])) for x in m.split(" ")[0].split(",")]
                    msingle = len([y for y in mv["single"].split(".") if y])
                    minvalid = [int(y) for y in mv["invalid"].split(",") if y]
                except Exception:  # noqa: BLE001
                    mparts, msingle, minvalid = None, None, None
                impl = [(nm, len(a)) for nm, a in files]
                ok = (impl == mparts) if multi else (impl == [("fp.npy", msingle)])
                ok = ok and minvalid == bad
                if not ok and res.disagreement is None:
                    res.disagreement = {"what": "fps-from-smiles part names and sizes vs model PARTS", "model": m[:600], "impl": str(impl)[:600],
                                        "case": {k2: v for k2, v in case.items() if k2 != "smiles"}}
            # skipped entries reported by index
            if skip and bad:
                inv = sorted(out.glob("invalid-*.npy"))
                rep = [int(x) for x in np.load(inv[0])] if inv else None
                if rep is None:
                    _fail(res, f"C16:fps-from-smiles:{'multi-part' if multi else 'single-file'}:skip-invalid:no-index-report",
                          "invalid SMILES were skipped but no invalid-*.npy with their indices was written; output: "
                          + (r.stdout.strip().replace("\n", " | ")[:200]), case)
                elif rep != bad:
                    _fail(res, "C16:fps-from-smiles:skip-invalid:wrong-indices", f"reported {rep} wanted {bad}", case)
            if n > 1:
                res.nontrivial += 1
            if len(res.samples) < 2:
                res.samples.append({"args": args[2:], "files": [(nm, list(a.shape)) for nm, a in files]})
            shutil.rmtree(wd, ignore_errors=True)
            if _stop(res):
                break
    finally:
        d.close()
        shutil.rmtree(work, ignore_errors=True)
    res.counters = cnt
    return res


# ------------------------------------------------------------- split / merge / shuffle
def suite_split_merge(tier: str, seed: int, mult: int) -> SuiteResult:
    rng = random.Random(seed + 131)
    nprng = np.random.default_rng(seed + 131)
    res = SuiteResult("S-FILES[split/merge/shuffle]")
    work = Path(tempfile.mkdtemp(prefix="bbverif-spl-", dir=SCRATCH))
    runner, app = _runner()
    d = Driver()
    cnt = {"splits": 0, "by_parts": 0, "by_max": 0, "parts_gt_rows": 0, "shuffles": 0, "ten_or_more_parts": 0}
    try:
        for k in range((60 if tier == "quick" else 1500) * mult):
            n = rng.choice([1, 2, 3, 7, 10, 23, 100, 257])
            w = rng.choice([1, 4, 32])
            dt = rng.choice(["uint8", "uint8", "uint16", "int64"])
            X = nprng.integers(0, 256 if dt == "uint8" else 1000, size=(n, w)).astype(dt)
            wd = work / f"s{k}"
            wd.mkdir()
            name = rng.choice(["fps.npy", "packed-fps-uint8.npy", "a.b.npy"])
            src = wd / name
            np.save(src, X)
            by_parts = rng.random() < 0.5
            parts = rng.choice([2, 3, 9, 10, 11, 12, 101]) if by_parts else None
            maxper = None if by_parts else rng.choice([1, 2, 5, 10, 11, 64, 1000])
            case = {"rows": n, "width": w, "dtype": dt, "name": name, "parts": parts, "max_fps": maxper}
            sd = wd / "split"
            args = ["fps-split", str(src), "-o", str(sd)] + (["-n", str(parts)] if by_parts else ["-m", str(maxper)])
            r = runner.invoke(app, args)
            cnt["splits"] += 1
            cnt["by_parts" if by_parts else "by_max"] += 1
            res.evaluations += 1
            if r.exit_code != 0:
                _fail(res, "C16:fps-split:failed", f"exit {r.exit_code}: {args[2:]} {r.exception!r}", case)
                break
            files = _load_sorted(sd)
            per = -(-n // parts) if by_parts else maxper
            cnt["parts_gt_rows"] += by_parts and parts > n
            cnt["ten_or_more_parts"] += len(files) >= 10
            # name order = part order, concatenation = the original
            cat = np.concatenate([a for _, a in files])
            if cat.shape != X.shape or cat.dtype != X.dtype or not (cat == X).all():
                _fail(res, "C16:fps-split:concatenation-in-name-order-differs", f"{[(nm, len(a)) for nm, a in files][:12]}", case)
            stem = name.split(".")[0]
            digits = len(str(parts)) if by_parts else len(str(-(-n // maxper)))
            m = d.cmd(f"SPLITMERGE n={n} per={per} digits={digits}")
            mnames = [name[:-4] + x[1:] for x in m.split(" ")[0].split(",")] if m and not m.startswith("-") else []
            impl = " ".join(nm for nm, _ in files)
            if (" ".join(mnames) != impl or not m.endswith(" true")) and res.disagreement is None:
                res.disagreement = {"what": "fps-split part names vs model SPLITMERGE", "model": m[:800], "impl": impl[:800], "case": case}
            impl = " ".join(f"{nm}:{len(a)}" for nm, a in files)
            # merge back
            md = wd / "merged"
            r2 = runner.invoke(app, ["fps-merge", str(sd), "-o", str(md)])
            if r2.exit_code != 0:
                _fail(res, "C16:fps-merge:failed", f"exit {r2.exit_code}: {r2.exception!r}", case)
                break
            back = np.load(md / f"{stem}.npy")
            if back.shape != X.shape or back.dtype != X.dtype or not (back == X).all():
                _fail(res, "C16:split-then-merge-does-not-reproduce-the-file", f"{back.shape} vs {X.shape}", case)
            # shuffle preserves the multiset of rows
            if rng.random() < 0.5:
                cnt["shuffles"] += 1
                shd = wd / "sh"
                sargs = ["fps-shuffle", str(src), "-o", str(shd)] + (["--seed", str(rng.randint(0, 99))] if rng.random() < 0.5 else [])
                r3 = runner.invoke(app, sargs)
                if r3.exit_code != 0:
                    _fail(res, "C16:fps-shuffle:failed", f"{r3.exception!r}", case)
                    break
                S = np.load(shd / f"shuffled-{src.stem}.npy")
                key = lambda A: sorted(map(bytes, A))  # noqa: E731
                if S.shape != X.shape or S.dtype != X.dtype or key(S) != key(X):
                    _fail(res, "C16:fps-shuffle:multiset-of-rows-changed", f"{S.shape} {S.dtype}", case)
                if not (np.load(src) == X).all():
                    _fail(res, "C16:fps-shuffle:input-file-modified", "", case)
            if len(files) > 1:
                res.nontrivial += 1
            if len(res.samples) < 2:
                res.samples.append({"args": args[2:], "parts": impl[:120]})
            shutil.rmtree(wd, ignore_errors=True)
            if _stop(res):
                break
    finally:
        d.close()
        shutil.rmtree(work, ignore_errors=True)
    res.counters = cnt
    return res


# ---------------------------------------------------------- the file-sequence indexer
def suite_fileseq(tier: str, seed: int, mult: int) -> SuiteResult:
    from bblean.fingerprints import _get_fingerprints_from_file_seq, _FingerprintFileSequence
    rng = random.Random(seed + 137)
    nprng = np.random.default_rng(seed + 137)
    res = SuiteResult("S-FILES[file sequence]")
    work = Path(tempfile.mkdtemp(prefix="bbverif-seq-", dir=SCRATCH))
    d = Driver()
    cnt = {"queries": 0, "repeat_gap": 0, "with_repeats": 0, "empty_idxs": 0, "with_empty_files": 0, "unsorted": 0, "out_of_range": 0, "width_mismatch": 0}
    try:
        for k in range((120 if tier == "quick" else 3000) * mult):
            nf = rng.choice([1, 2, 3, 5])
            w = rng.choice([1, 2, 4])
            lens = [rng.choice([0, 0, 1, 2, 5, 9]) for _ in range(nf)]
            mism = rng.random() < 0.05 and nf > 1
            dt = rng.choice(["uint8", "uint8", "uint16"])
            arrs = [nprng.integers(0, 256, size=(n, w + (1 if (mism and i == nf - 1) else 0))).astype(dt) for i, n in enumerate(lens)]
            N = sum(lens)
            wd = work / f"q{k}"
            wd.mkdir()
            paths = []
            for i, a in enumerate(arrs):
                np.save(wd / f"f{i}.npy", a)
                paths.append(wd / f"f{i}.npy")
            kind = rng.choice(["sorted", "sorted", "sorted", "repeats", "repeat-gap", "empty", "unsorted", "oob"])
            if k < 8:
                kind = "repeat-gap"        # forced: the first queries of every run
            if kind == "repeat-gap":
                # a sorted list that spans a block of one file and has as many entries as the block has rows, but is not the block:
                # some rows are skipped and as many entries repeat ([3, 3, 5]) - a "contiguous block" shortcut keyed on
                # last - first + 1 == len(idxs) would read the wrong rows
                big = [i for i, n in enumerate(lens) if n >= 3]
                if not big:
                    lens[rng.randrange(nf)] = rng.choice([5, 9])
                    arrs = [nprng.integers(0, 256, size=(n, w)).astype(dt) for n in lens]
                    mism = False
                    N = sum(lens)
                    for i, a in enumerate(arrs):
                        np.save(wd / f"f{i}.npy", a)
                    big = [i for i, n in enumerate(lens) if n >= 3]
                fi = rng.choice(big)
                off = sum(lens[:fi])
                L = rng.randint(3, lens[fi])
                a0 = rng.randint(0, lens[fi] - L)
                block = list(range(off + a0, off + a0 + L))
                inner = block[1:-1]
                drop = set(rng.sample(inner, rng.randint(1, len(inner))))
                keep = [x for x in block if x not in drop]
                idxs = sorted(keep + [rng.choice(keep) for _ in drop])
                if rng.random() < 0.4 and N:
                    idxs = sorted(idxs + [rng.randrange(N) for _ in range(rng.randint(1, 3))])
            elif kind == "empty" or N == 0 and kind in ("sorted", "repeats", "unsorted"):
                idxs = []
            elif kind == "sorted":
                idxs = sorted(rng.sample(range(N), rng.randint(1, N)))
            elif kind == "repeats":
                idxs = sorted(rng.choice(range(N)) for _ in range(rng.randint(1, 2 * N)))
            elif kind == "unsorted":
                idxs = [rng.choice(range(N)) for _ in range(rng.randint(2, 6))]
            else:
                idxs = sorted([rng.choice(range(N)) for _ in range(rng.randint(0, 3))] if N else []) + [N + rng.randint(0, 3)]
            cnt["queries"] += 1
            cnt["repeat_gap"] += kind == "repeat-gap"
            cnt["with_repeats"] += len(set(idxs)) < len(idxs)
            cnt["empty_idxs"] += not idxs
            cnt["with_empty_files"] += 0 in lens
            cnt["unsorted"] += sorted(idxs) != idxs
            cnt["out_of_range"] += any(i >= N for i in idxs)
            cnt["width_mismatch"] += mism
            res.evaluations += 1
            case = {"lens": lens, "width": w, "dtype": dt, "idxs": idxs, "width_mismatch": mism}
            try:
                got = _FingerprintFileSequence(paths)[idxs] if rng.random() < 0.5 else _get_fingerprints_from_file_seq(paths, idxs)
                impl = ",".join(show_nats(".", r) for r in got.tolist()) if len(got) else "-"
                impl = "ok " + impl
            except ValueError:
                got = None
                impl = "err:ValueError"
            except Exception as e:  # noqa: BLE001
                got = None
                impl = f"err:{type(e).__name__}"
            # the property: equal to indexing the concatenation (uint8 view of the values, as the function documents)
            if not mism and sorted(idxs) == idxs and all(i < N for i in idxs):
                cat = np.concatenate(arrs).astype(np.uint8) if N else np.zeros((0, w), np.uint8)
                want = cat[idxs] if idxs else cat[:0]
                if got is None or got.shape != want.shape or not (got == want).all():
                    _fail(res, "C16:file-seq-indexing-differs-from-indexing-the-concatenation", f"impl {impl[:200]}", case)
            if not mism:
                files = "|".join(",".join(bytes(int(v) % 256 for v in r).hex() for r in a.tolist()) for a in arrs)
                m = d.cmd(f"FILESEQ F={8 * w} files={files} idxs={show_nats(',', idxs)}")
                impl_m = impl if got is None else ("ok" if not len(got) else "ok " + ",".join(bytes(r).hex() for r in got.tolist()))
                if m != impl_m and res.disagreement is None:
                    res.disagreement = {"what": "_get_fingerprints_from_file_seq vs model FILESEQ", "model": m[:600], "impl": impl_m[:600], "case": case}
            if idxs and nf > 1:
                res.nontrivial += 1
            if len(res.samples) < 2:
                res.samples.append({"lens": lens, "idxs": idxs[:10], "answer": impl[:80]})
            shutil.rmtree(wd, ignore_errors=True)
            if _stop(res):
                break
    finally:
        d.close()
        shutil.rmtree(work, ignore_errors=True)
    res.counters = cnt
    return res


# --------------------------------------------------------------------------- fps-info
def suite_info(tier: str, seed: int, mult: int) -> SuiteResult:
    rng = random.Random(seed + 139)
    res = SuiteResult("S-FILES[fps-info]")
    work = Path(tempfile.mkdtemp(prefix="bbverif-inf-", dir=SCRATCH))
    runner, app = _runner()
    cnt = {"calls": 0, "single_file": 0, "directory": 0, "invalid_dtype": 0, "invalid_shape": 0, "several_paths": 0}
    try:
        for k in range((40 if tier == "quick" else 600) * mult):
            wd = work / f"i{k}"
            wd.mkdir()
            specs = []
            for j in range(rng.choice([1, 1, 2, 4])):
                shape = rng.choice([(0, 8), (5, 8), (3, 256), (7,), (2, 3, 4), ()])
                dt = rng.choice(["uint8", "uint8", "uint16", "int64", "float32", "float64", "bool"])
                a = np.zeros(shape, dtype=dt)
                np.save(wd / f"f{j}.npy", a)
                specs.append({"file": f"f{j}.npy", "shape": list(shape), "dtype": dt,
                              "valid": len(shape) == 2 and np.issubdtype(np.dtype(dt), np.integer)})
            how = rng.choice(["file", "dir", "files"])
            if how == "file":
                targets, shown = [wd / specs[0]["file"]], specs[:1]
            elif how == "dir":
                targets, shown = [wd], specs
            else:
                targets, shown = [wd / s["file"] for s in specs], specs
            cnt["calls"] += 1
            cnt["single_file"] += how == "file"
            cnt["directory"] += how == "dir"
            cnt["several_paths"] += how == "files" and len(specs) > 1
            cnt["invalid_dtype"] += any(not np.issubdtype(np.dtype(s["dtype"]), np.integer) for s in shown)
            cnt["invalid_shape"] += any(len(s["shape"]) != 2 for s in shown)
            res.evaluations += 1
            r = runner.invoke(app, ["fps-info", *map(str, targets)])
            case = {"how": how, "files": shown}
            out = r.output or ""
            if r.exit_code != 0:
                kinds = sorted({("dtype" if not np.issubdtype(np.dtype(s["dtype"]), np.integer) else "") +
                                ("shape" if len(s["shape"]) != 2 else "") or "valid" for s in shown})
                _fail(res, f"C16:fps-info:fails:{how}:{'+'.join(kinds)}:{type(r.exception).__name__}",
                      f"exit {r.exit_code} {r.exception!r}", case)
                break
            for s in shown:
                # each file is described once, with the right verdict
                blocks = [b for b in out.split("File: ")[1:] if b.splitlines()[0].strip().endswith(s["file"])]
                if len(blocks) != 1:
                    _fail(res, "C16:fps-info:file-not-described-exactly-once", f"{s['file']}: {len(blocks)} blocks", case)
                    break
                verdict_valid = "Valid fingerprint file" in blocks[0] and "Invalid fingerprint file" not in blocks[0]
                if verdict_valid != s["valid"]:
                    _fail(res, "C16:fps-info:wrong-validity-verdict", f"{s} shown as {'valid' if verdict_valid else 'invalid'}", case)
                    break
                if s["valid"] and (f"Num. fingerprints: {s['shape'][0]:,}" not in blocks[0] or f"Num. features: {s['shape'][1]:,}" not in blocks[0]):
                    _fail(res, "C16:fps-info:wrong-counts", blocks[0][:200], case)
                    break
            if len(shown) > 1:
                res.nontrivial += 1
            if len(res.samples) < 2:
                res.samples.append(case)
            shutil.rmtree(wd, ignore_errors=True)
            if _stop(res):
                break
    finally:
        shutil.rmtree(work, ignore_errors=True)
    res.counters = cnt
    return res
