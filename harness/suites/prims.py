"""S-PRIM and S-MERGE: similarity primitives and merge criteria, real functions vs model,
compared as exact rationals / bit strings; direct oracles for C10, C11, C12."""
from __future__ import annotations

import itertools
import random
from fractions import Fraction

from core import Driver, np, show_rat, show_nats, row_hex, exp_table_line, frac, err_name
from checklib import SuiteResult

import bblean
import bblean.similarity as sim
import bblean._py_similarity as pysim
from bblean._merges import get_merge_accept_fn
from bblean.utils import min_safe_uint

CRITS = ["radius", "diameter", "tolerance-diameter", "tolerance-radius", "tolerance-legacy", "never-merge"]


def fval(x) -> str:
    """canonical value of a float result (nan-aware)"""
    try:
        if x != x:
            return "nan"
    except Exception:  # noqa: BLE001
        pass
    return show_rat(x)


def rows_hex(rows) -> str:
    return ",".join(row_hex(r) for r in rows) if len(rows) else "-"


# ------------------------------------------------------------------------------ C11
def exact_isim(ks, n) -> Fraction | None:
    num = sum(k * (k - 1) // 2 for k in ks)
    den = sum(k * (k - 1) // 2 + k * (n - k) for k in ks)
    return Fraction(num, den) if den else None


def ulps(a: float, b: float) -> float:
    if a == b:
        return 0.0
    return abs(a - b) / np.spacing(max(abs(a), abs(b)))


def gen_counts(rng: random.Random, big: bool):
    if not big:
        n = rng.choice([2, 2, 3, 4, 5, 7, 10, 50, 255, 256, 1000])
        w = rng.randint(1, 12)
        ks = [rng.choice([0, n, rng.randint(0, n), rng.randint(0, n)]) for _ in range(w)]
    else:
        # n * sum(ks) up to 2^63
        # ... with every third case in the top binade 2^62 <= n * sum(ks) < 2^63 of the stated range
        bits = rng.randint(20, 62) if rng.random() < 0.67 else 63
        w = rng.randint(1, 6)
        n = rng.randint(2, max(2, 2 ** (bits // 2 + rng.randint(0, bits // 2 - 1))))
        cap = max(1, (2 ** bits) // n // w)
        ks = [min(n, rng.randint(cap // 2 if bits == 63 else 0, cap)) for _ in range(w)]
        if n * sum(ks) >= 2 ** 63:
            return gen_counts(rng, big)
    return ks, n


def suite_isim(tier: str, seed: int, mult: int) -> SuiteResult:
    rng = random.Random(seed)
    res = SuiteResult("S-PRIM[isim]")
    d = Driver()
    cnt = {"exhaustive_small": 0, "random_small": 0, "random_big": 0, "wrappers": 0, "compl": 0, "perm": 0,
           "nan": 0, "all_zero": 0, "above_2^52": 0, "max_ulp_above_2^52": 0.0}
    seen = set()

    def check_counts(ks, n, kind):
        ls = np.asarray(ks, dtype=np.uint64)
        try:
            v = sim.jt_isim_from_sum(ls, n)
            iv = fval(v)
        except Exception as e:  # noqa: BLE001
            iv = err_name(e)
        mv = d.cmd(f"ISIM n={n} ks={show_nats(',', ks)}")
        res.evaluations += 1
        cnt[kind] += 1
        if iv == "nan":
            cnt["nan"] += 1
        if sum(ks) == 0:
            cnt["all_zero"] += 1
        key = (tuple(ks), n)
        if key not in seen and n >= 2 and sum(ks) > 0:
            seen.add(key)
            res.nontrivial += 1
        if mv != iv and res.disagreement is None:
            res.disagreement = {"what": "jt_isim_from_sum", "ks": list(map(int, ks)), "n": n, "model": mv, "impl": iv}
        # oracle: the exact rational definition
        if n >= 2 and iv not in ("nan",) and not iv.startswith("err"):
            if sum(ks) == 0:
                if frac(v) != 1:
                    res.failures.append({"signature": "C11:all-empty-not-1", "what": f"isim of empty fingerprints = {v}",
                                         "case": {"ks": ks, "n": n}})
            else:
                ex = exact_isim(ks, n)
                if n * sum(ks) < 2 ** 52:
                    if float(v) != float(ex):
                        res.failures.append({"signature": "C11:not-the-correctly-rounded-exact-value",
                                             "what": f"jt_isim_from_sum={float(v)!r} exact={float(ex)!r}", "case": {"ks": ks, "n": n}})
                else:
                    cnt["above_2^52"] += 1
                    u = ulps(float(v), float(ex))
                    cnt["max_ulp_above_2^52"] = max(cnt["max_ulp_above_2^52"], u)
                    if u > 64:
                        res.failures.append({"signature": "C11:more-than-64-ulp-from-exact",
                                             "what": f"jt_isim_from_sum={float(v)!r} exact={float(ex)!r} ({u} ulp)", "case": {"ks": ks, "n": n}})
        elif iv.startswith("err"):
            res.failures.append({"signature": "C11:from-sum-raised", "what": iv, "case": {"ks": ks, "n": n}})

    try:
        # exhaustive: n <= N, width <= Wd
        N, Wd = (5, 3) if tier == "quick" else (6, 4)
        for n in range(0, N + 1):
            for w in range(1, Wd + 1):
                for ks in itertools.product(range(n + 1), repeat=w):
                    check_counts(list(ks), n, "exhaustive_small")
        for _ in range((300 if tier == "quick" else 5000) * mult):
            ks, n = gen_counts(rng, False)
            check_counts(ks, n, "random_small")
        for _ in range((300 if tier == "quick" else 5000) * mult):
            ks, n = gen_counts(rng, True)
            check_counts(ks, n, "random_big")
        # from-sum forms on sums held in the NARROWEST dtype (as the tree holds them), counts at the width boundaries
        from bblean.utils import min_safe_uint as _msu
        cnt["narrow_dtype"] = 0
        for _ in range((300 if tier == "quick" else 4000) * mult):
            n = rng.choice([2, 3, 127, 128, 129, 200, 254, 255, 256, 257, 1000, 65534, 65535, 65536])
            w = rng.randint(1, 10)
            ks = [rng.choice([0, n, n, n // 2, (n + 1) // 2, rng.randint(0, n)]) for _ in range(w)]
            ls = np.asarray(ks, dtype=_msu(n))
            cnt["narrow_dtype"] += 1
            res.evaluations += 1
            # the from-sum forms are functions of their arguments: a vector handed to them (uint64, as np.sum gives it) is
            # not modified, so a second statistic of the same vector is the statistic of the same counts
            v64 = np.asarray(ks, dtype=np.uint64)
            keep = v64.copy()
            with np.errstate(all="ignore"):
                first = repr(float(sim.jt_isim_from_sum(v64, n)))
                for fn_ in (sim.jt_isim_radius_compl_from_sum, sim.jt_isim_radius_from_sum, sim.jt_isim_diameter_from_sum):
                    fn_(v64, n)
                again = repr(float(sim.jt_isim_from_sum(v64, n)))
            if not np.array_equal(v64, keep) or first != again:
                res.failures.append({"signature": "C11:from-sum-function-modifies-its-argument",
                                     "what": f"iSIM before {first}, after the radius / diameter calls on the same vector {again}",
                                     "case": {"ks": ks, "n": n}})
            outs = []
            for name, fn in (("isim", sim.jt_isim_from_sum), ("radius_compl", sim.jt_isim_radius_compl_from_sum),
                             ("radius", sim.jt_isim_radius_from_sum), ("diameter", sim.jt_isim_diameter_from_sum)):
                try:
                    outs.append(fval(fn(ls, n)))
                except Exception as e:  # noqa: BLE001
                    outs.append(err_name(e))
            cen = np.asarray(sim.centroid_from_sum(ls, n, pack=True)).tobytes().hex()
            m_isim = d.cmd(f"ISIM n={n} ks={show_nats(',', ks)}")
            m_rc = d.cmd(f"RC n={n} ks={show_nats(',', ks)}")
            m_cen = d.cmd(f"CENT n={n} ks={show_nats(',', ks)}")
            want = [m_isim, m_rc]
            if outs[:2] != want or cen != m_cen:
                if res.disagreement is None:
                    res.disagreement = {"what": "from-sum forms on narrow dtype", "n": n, "ks": ks, "dtype": str(ls.dtype),
                                        "model": want + [m_cen], "impl": outs + [cen]}
            # oracle: same value as on uint64 sums (the defining identity does not depend on the counter width)
            ls64 = ls.astype(np.uint64)
            ref = [fval(sim.jt_isim_from_sum(ls64, n)), fval(sim.jt_isim_radius_compl_from_sum(ls64, n))]
            if outs[:2] != ref:
                res.failures.append({"signature": "C11:from-sum-value-depends-on-the-dtype-of-the-sums",
                                     "what": f"n={n} dtype={ls.dtype}: {outs[:2]} vs uint64 {ref}", "case": {"n": n, "ks": ks}})
            maj = (2 * ls64 >= n) if n > 1 else (ls64 != 0)
            if cen != np.packbits(maj.astype(np.uint8)).tobytes().hex():
                res.failures.append({"signature": "C12:centroid-not-majority-on-narrow-dtype-sums",
                                     "what": f"n={n} dtype={ls.dtype}", "case": {"n": n, "ks": ks}})
            # the count given as a NumPy scalar of the same narrow dtype (what the estimator passes when it re-imports a buffer)
            if n <= np.iinfo(ls.dtype).max:
                with np.errstate(all="ignore"):
                    cen_s = np.asarray(sim.centroid_from_sum(ls, ls.dtype.type(n), pack=True)).tobytes().hex()
                if cen_s != cen:
                    res.failures.append({"signature": "C12:centroid-depends-on-the-dtype-of-the-count",
                                         "what": f"n={n} as {ls.dtype}: {cen_s} vs {cen}", "case": {"n": n, "ks": ks}})
        # one large packed set through the from-fingerprints wrappers (more rows than any block-wise implementation would
        # hold in one block: 2^26 / (8 * 256) = 32768 rows of 2048 bits), against the from-sum forms on independently
        # accumulated column sums
        nbig = 32768 + rng.choice([1, 5, 1000, 2791])
        nr = np.random.default_rng(rng.randrange(2 ** 31))
        Xbig = (nr.random((nbig, 256)) < 0.04).astype(np.uint8) * nr.integers(1, 256, size=(nbig, 256), dtype=np.uint8)
        Xbig[-3:] = 255      # the last rows carry bits no other row has
        col = np.zeros(2048, dtype=np.uint64)
        for a0 in range(0, nbig, 4096):
            col += np.unpackbits(Xbig[a0:a0 + 4096], axis=1).sum(axis=0, dtype=np.uint64)
        cnt["large_packed_set"] = 1
        res.evaluations += 1
        with np.errstate(all="ignore"):
            for name, wfn, ffn in (("isim", sim.jt_isim, sim.jt_isim_from_sum), ("diameter", sim.jt_isim_diameter, sim.jt_isim_diameter_from_sum),
                                   ("radius", sim.jt_isim_radius, sim.jt_isim_radius_from_sum),
                                   ("radius_compl", sim.jt_isim_radius_compl, sim.jt_isim_radius_compl_from_sum)):
                gv, rv = fval(wfn(Xbig, input_is_packed=True, n_features=2048)), fval(ffn(col, nbig))
                if gv != rv:
                    res.failures.append({"signature": f"C11:wrapper-{name}-packed-differs-from-the-from-sum-form",
                                         "what": f"{nbig} packed 2048-bit fingerprints: {gv} vs {rv} from the column sums",
                                         "case": {"rows": nbig, "bits": 2048}})
        del Xbig
        # wrappers on fingerprint arrays, packed and unpacked, any feature count
        for _ in range((150 if tier == "quick" else 2000) * mult):
            F = rng.choice(list(range(1, 20)) + [63, 64, 65])
            n = rng.choice([0, 1, 2, 2, 3, 4, 6, 9])
            dens = rng.choice([0.0, 0.1, 0.5, 0.9, 1.0])
            rows = [[1 if rng.random() < dens else 0 for _ in range(F)] for _ in range(n)]
            if n >= 2 and rng.random() < 0.3:
                # empty fingerprints mixed in: all but one / all but two / exactly one row empty, or duplicates of one row
                kind = rng.choice(["all-but-one", "all-but-two", "one-empty", "duplicates"])
                keep = set(rng.sample(range(n), {"all-but-one": 1, "all-but-two": min(2, n), "one-empty": n - 1}.get(kind, n)))
                if kind == "duplicates":
                    rows = [list(rows[0]) for _ in range(n)]
                else:
                    base = [1 if rng.random() < 0.5 else 0 for _ in range(F)]
                    rows = [(r if any(r) else list(base)) if i in keep else [0] * F for i, r in enumerate(rows)]
                cnt["mixed_empty_rows"] = cnt.get("mixed_empty_rows", 0) + 1
            X = np.asarray(rows, dtype=np.uint8).reshape(n, F)
            Xp = np.packbits(X, axis=1) if n else np.zeros((0, (F + 7) // 8), dtype=np.uint8)
            if n == 0:
                continue
            cnt["wrappers"] += 1
            res.evaluations += 1
            mline = d.cmd(f"ISIMROWS F={F} rows={rows_hex(rows)}")
            outs = {}
            for name, fn in (("isim", sim.jt_isim), ("diameter", sim.jt_isim_diameter), ("radius", sim.jt_isim_radius),
                             ("radius_compl", sim.jt_isim_radius_compl)):
                for packed in (False, True):
                    try:
                        v = fn(Xp, input_is_packed=True, n_features=F) if packed else fn(X, input_is_packed=False)
                        outs[(name, packed)] = fval(v)
                    except Exception as e:  # noqa: BLE001
                        outs[(name, packed)] = err_name(e)
            # oracle (no model): every wrapper agrees with its from-sum form on the column sums of the same rows, and the
            # packed form with the unpacked one
            if n >= 2:
                colsum = X.astype(np.uint64).sum(axis=0)
                with np.errstate(all="ignore"):
                    ref = {"isim": fval(sim.jt_isim_from_sum(colsum, n)), "diameter": fval(sim.jt_isim_diameter_from_sum(colsum, n)),
                           "radius": fval(sim.jt_isim_radius_from_sum(colsum, n)),
                           "radius_compl": fval(sim.jt_isim_radius_compl_from_sum(colsum, n))}
                for (name, packed), v in outs.items():
                    if not v.startswith("err") and v != ref[name]:
                        res.failures.append({"signature": f"C11:wrapper-{name}-{'packed' if packed else 'unpacked'}-differs-from-the-from-sum-form",
                                             "what": f"jt_isim_{name}({'packed' if packed else 'unpacked'} rows) = {v}, from the column sums {ref[name]}",
                                             "case": {"F": F, "rows": rows}})
                        break
            m_isim, m_diam, m_rad, m_rc, m_cent = mline.split(" ")
            want = {"isim": m_isim, "diameter": m_diam, "radius": m_rad, "radius_compl": m_rc}
            for (name, packed), v in outs.items():
                if v.startswith("err"):
                    res.failures.append({"signature": f"C11:wrapper-{name}-{'packed' if packed else 'unpacked'}-raised-{v[4:]}",
                                         "what": f"jt_isim_{name}({'packed' if packed else 'unpacked'}) raised {v[4:]}",
                                         "case": {"F": F, "rows": rows}})
                elif v != want[name] and res.disagreement is None:
                    res.disagreement = {"what": f"wrapper {name} packed={packed}", "F": F, "rows": rows, "model": want[name], "impl": v}
            c_p = sim.centroid(Xp, input_is_packed=True, n_features=F, pack=True)
            c_u = sim.centroid(X, input_is_packed=False, pack=True)
            if c_p.tobytes().hex() != m_cent or c_u.tobytes().hex() != m_cent:
                if res.disagreement is None:
                    res.disagreement = {"what": "centroid", "F": F, "rows": rows, "model": m_cent, "impl": c_p.tobytes().hex()}
            # permutation invariance (oracle on the real function, bit for bit)
            if n >= 2:
                cnt["perm"] += 1
                pr = list(range(n)); rng.shuffle(pr)
                pc = list(range(F)); rng.shuffle(pc)
                a = sim.jt_isim(X, input_is_packed=False)
                b = sim.jt_isim(X[pr][:, pc], input_is_packed=False)
                if fval(a) != fval(b):
                    res.failures.append({"signature": "C11:not-invariant-under-row/column-order", "what": f"{a!r} vs {b!r}",
                                         "case": {"F": F, "rows": rows, "pr": pr, "pc": pc}})
            # complementary similarity
            cnt["compl"] += 1
            try:
                cs = sim.jt_compl_isim(X, input_is_packed=False)
                midx, mrow = sim.jt_isim_medoid(X, input_is_packed=False, pack=False)
                midx = int(midx)
                iv = ",".join(fval(x) for x in cs) + f" {midx}"
                # packed input, packed output: the same values / the same row
                cs_p = sim.jt_compl_isim(Xp, input_is_packed=True, n_features=F)
                midx_p, mrow_p = sim.jt_isim_medoid(Xp, input_is_packed=True, n_features=F, pack=True)
                if [fval(x) for x in cs_p] != [fval(x) for x in cs] or int(midx_p) != midx or \
                        np.asarray(mrow_p).tobytes() != np.packbits(np.asarray(mrow, dtype=np.uint8)).tobytes() or \
                        np.asarray(mrow).tolist() != X[midx].tolist():
                    res.failures.append({"signature": "C11:complementary-similarity/medoid-differ-between-packed-and-unpacked-input",
                                         "what": f"medoid {midx} vs {int(midx_p)}", "case": {"F": F, "rows": rows}})
            except Exception as e:  # noqa: BLE001
                iv = err_name(e)
            mv = d.cmd(f"COMPL F={F} rows={rows_hex(rows)}")
            if mv != iv and res.disagreement is None:
                res.disagreement = {"what": "jt_compl_isim/medoid", "F": F, "rows": rows, "model": mv, "impl": iv}
            if n >= 3 and not iv.startswith("err"):
                for i in range(n):
                    rest = np.delete(X, i, axis=0)
                    direct = sim.jt_isim(rest, input_is_packed=False)
                    if fval(direct) != fval(cs[i]):
                        res.failures.append({"signature": "C11:complementary-similarity-differs-from-isim-without-row",
                                             "what": f"row {i}: {cs[i]!r} vs {direct!r}", "case": {"F": F, "rows": rows}})
                        break
            if len(res.samples) < 2:
                res.samples.append({"F": F, "rows": [row_hex(r) for r in rows], "isim": m_isim})
    finally:
        d.close()
    cnt["max_ulp_above_2^52"] = float(cnt["max_ulp_above_2^52"])
    res.counters = cnt
    res.failures = res.failures[:3]
    return res


# ------------------------------------------------------------------------------ C12
def suite_bits(tier: str, seed: int, mult: int) -> SuiteResult:
    rng = random.Random(seed + 17)
    res = SuiteResult("S-PRIM[bits]")
    d = Driver()
    cnt = {"jt_exhaustive": 0, "jt_random": 0, "misaligned": 0, "pack": 0, "popcount_words": 0, "matrix": 0, "dissim": 0,
           "empty_union": 0, "bytes_mult_of_8": 0, "bytes_not_mult_of_8": 0}

    def jt_check(F, a, b, kind, offset=None):
        A = np.packbits(np.asarray(a, dtype=np.uint8))
        B = np.packbits(np.asarray(b, dtype=np.uint8))
        if offset is not None:
            buf = np.zeros(len(A) + 16, dtype=np.uint8)
            buf[offset:offset + len(A)] = A
            A = buf[offset:offset + len(A)]
        try:
            v = sim.jt_sim_packed(A, B)
            v2 = sim.jt_sim_packed(B, A)
            iv = fval(v)
        except Exception as e:  # noqa: BLE001
            iv, v, v2 = err_name(e), None, None
        mv = d.cmd(f"JT F={F} a={row_hex(a)} b={row_hex(b)}")
        mbits, mpacked = mv.split(" ")
        res.evaluations += 1
        cnt[kind] += 1
        cnt["bytes_mult_of_8" if len(B) % 8 == 0 else "bytes_not_mult_of_8"] += 1
        if mbits != mpacked or mbits != iv:
            if res.disagreement is None:
                res.disagreement = {"what": "jt_sim_packed", "F": F, "a": a, "b": b, "model": mv, "impl": iv}
        inter = sum(x & y for x, y in zip(a, b))
        union = sum(x | y for x, y in zip(a, b))
        if union == 0:
            cnt["empty_union"] += 1
        if v is not None:
            if fval(v) != fval(v2):
                res.failures.append({"signature": "C12:tanimoto-not-symmetric", "what": f"{v!r} vs {v2!r}", "case": {"a": a, "b": b}})
            if union > 0 and float(v) != inter / union:
                res.failures.append({"signature": "C12:tanimoto-differs-from-intersection-over-union",
                                     "what": f"{float(v)!r} vs {inter}/{union}", "case": {"a": a, "b": b}})
            if union == 0 and not (0.0 <= float(v) <= 1.0):
                res.failures.append({"signature": "C12:tanimoto-of-empty-pair-not-in-[0,1]", "what": repr(v), "case": {"a": a, "b": b}})
        else:
            res.failures.append({"signature": "C12:tanimoto-raised", "what": iv, "case": {"a": a, "b": b}})

    try:
        Wmax = 4 if tier == "quick" else 6
        for F in range(1, Wmax + 1):
            for a in itertools.product((0, 1), repeat=F):
                for b in itertools.product((0, 1), repeat=F):
                    jt_check(F, list(a), list(b), "jt_exhaustive")
        res.nontrivial += cnt["jt_exhaustive"]
        for _ in range((400 if tier == "quick" else 6000) * mult):
            F = rng.choice(list(range(1, 70)) + [127, 128, 129, 255, 256, 512, 1000, 2048, 4096])
            da, db = rng.choice([0, 0.05, 0.5, 0.95, 1]), rng.choice([0, 0.05, 0.5, 0.95, 1])
            a = [1 if rng.random() < da else 0 for _ in range(F)]
            b = [1 if rng.random() < db else 0 for _ in range(F)]
            jt_check(F, a, b, "jt_random")
            if rng.random() < 0.3:
                jt_check(F, a, b, "misaligned", offset=rng.randint(1, 7))
            res.nontrivial += 1
            # pack / unpack / popcount
            cnt["pack"] += 1
            P = np.packbits(np.asarray(a, dtype=np.uint8))
            U = bblean.unpack_fingerprints(bblean.pack_fingerprints(np.asarray(a, dtype=np.uint8)), n_features=F)
            mv = d.cmd("PACK bits=" + "".join(map(str, a)))
            mhex, mun, mpop, mpopc = mv.split(" ")
            iv = f"{P.tobytes().hex()} {''.join(map(str, U.tolist()))} {int(pysim._popcount(P.reshape(1, -1))[0])} {sum(a)}"
            if mv != iv and res.disagreement is None:
                res.disagreement = {"what": "pack/unpack/popcount", "F": F, "a": a, "model": mv[:300], "impl": iv[:300]}
            if U.tolist() != a:
                res.failures.append({"signature": "C12:unpack-does-not-invert-pack", "what": f"F={F}", "case": {"a": a}})
            if len(P) % 8 == 0:
                cnt["popcount_words"] += 1
                mw = d.cmd(f"POPW bytes={P.tobytes().hex()}")
                if len(set(mw.split(" "))) != 1 and res.disagreement is None:
                    res.disagreement = {"what": "popcount words vs bytes (model)", "bytes": P.tobytes().hex(), "model": mw}
        # matrix, most dissimilar, centroid from sum
        for it in range((150 if tier == "quick" else 2500) * mult):
            F = rng.choice(list(range(1, 30)) + [64, 65, 100])
            n = rng.randint(1, 7) if it % 10 else rng.choice([255, 256, 257, 300])
            dens = rng.choice([0.0, 0.2, 0.5, 0.9])
            rows = [[1 if rng.random() < dens else 0 for _ in range(F)] for _ in range(n)]
            if rng.random() < 0.3 and n > 1:
                rows[rng.randrange(n)] = list(rows[0])
            X = np.packbits(np.asarray(rows, dtype=np.uint8).reshape(n, F), axis=1)
            cnt["matrix"] += 1
            M = sim.jt_sim_matrix_packed(X) if n <= 8 else np.ones((0, 0))
            for i in range(n if n <= 8 else 0):
                for j in range(n):
                    want = 1.0 if i == j else float(sim.jt_sim_packed(X[i], X[j]))
                    if float(M[i, j]) != want:
                        res.failures.append({"signature": "C12:matrix-differs-from-pairwise", "what": f"[{i},{j}] {M[i, j]!r} vs {want!r}",
                                             "case": {"F": F, "rows": rows}})
            cnt["dissim"] += 1
            try:
                i1, i2, s1, s2 = sim.jt_most_dissimilar_packed(X, F)
                iv = f"{int(i1)} {int(i2)} {','.join(fval(x) for x in s1)} {','.join(fval(x) for x in s2)}"
                ok = (0 <= int(i1) < n and 0 <= int(i2) < n
                      and all(float(s1[j]) == float(sim.jt_sim_packed(X[j], X[int(i1)])) for j in range(n))
                      and all(float(s2[j]) == float(sim.jt_sim_packed(X[j], X[int(i2)])) for j in range(n)))
                if not ok:
                    res.failures.append({"signature": "C12:most-dissimilar-returns-inconsistent-indices-or-similarities",
                                         "what": iv[:200], "case": {"F": F, "rows": rows}})
            except Exception as e:  # noqa: BLE001
                iv = err_name(e)
            mv = d.cmd(f"DISSIM F={F} rows={rows_hex(rows)}")
            res.evaluations += 1
            if mv != iv and res.disagreement is None:
                res.disagreement = {"what": "jt_most_dissimilar_packed", "F": F, "rows": rows, "model": mv[:400], "impl": iv[:400]}
            ls = np.asarray(rows, dtype=np.uint64).reshape(n, F).sum(axis=0)
            c = sim.centroid_from_sum(ls, n, pack=True)
            mc = d.cmd(f"CENT n={n} ks={show_nats(',', ls)}")
            maj = (2 * ls >= n) if n > 1 else (ls != 0)
            if c.tobytes().hex() != mc and res.disagreement is None:
                res.disagreement = {"what": "centroid_from_sum", "n": n, "ks": ls.tolist(), "model": mc, "impl": c.tobytes().hex()}
            if c.tobytes() != np.packbits(maj.astype(np.uint8)).tobytes():
                res.failures.append({"signature": "C12:centroid-not-majority-with-ties-set", "what": f"n={n}", "case": {"F": F, "rows": rows}})
            # the same on sums held in the narrowest dtype, at counts around the width boundaries
            nn = rng.choice([127, 128, 200, 255, 256, 65535])
            kk = [rng.choice([0, nn, nn // 2, (nn + 1) // 2, rng.randint(0, nn)]) for _ in range(rng.randint(1, 12))]
            lsn = np.asarray(kk, dtype=min_safe_uint(nn))
            cn = sim.centroid_from_sum(lsn, nn, pack=True)
            majn = 2 * np.asarray(kk, dtype=np.uint64) >= nn
            if cn.tobytes() != np.packbits(majn.astype(np.uint8)).tobytes():
                res.failures.append({"signature": "C12:centroid-not-majority-on-narrow-dtype-sums", "what": f"n={nn} dtype={lsn.dtype}",
                                     "case": {"n": nn, "ks": kk}})
            # the count as a NumPy scalar of the sums' dtype (the estimator passes buffer[-1] when it re-imports a summary)
            with np.errstate(all="ignore"):
                cs_ = sim.centroid_from_sum(lsn, lsn.dtype.type(nn), pack=True)
            if cs_.tobytes() != cn.tobytes():
                res.failures.append({"signature": "C12:centroid-depends-on-the-dtype-of-the-count", "what": f"n={nn} as {lsn.dtype}",
                                     "case": {"n": nn, "ks": kk}})
            # unpacking fewer features than the bytes hold (any count, multiples of 8 included): the first columns
            nb_ = rng.randint(1, 12)
            Pk = np.asarray([[rng.randrange(256) for _ in range(nb_)] for _ in range(rng.randint(1, 4))], dtype=np.uint8)
            nf_ = rng.choice([8 * rng.randint(1, nb_), rng.randint(1, 8 * nb_)])
            cnt["unpack_truncating"] = cnt.get("unpack_truncating", 0) + 1
            got_u = bblean.unpack_fingerprints(Pk, nf_)
            if got_u.shape != (len(Pk), nf_) or not np.array_equal(got_u, np.unpackbits(Pk, axis=1)[:, :nf_]) \
                    or not np.array_equal(bblean.unpack_fingerprints(Pk[0], nf_), np.unpackbits(Pk[0])[:nf_]):
                res.failures.append({"signature": "C12:unpack-does-not-return-the-first-n_features-columns",
                                     "what": f"{nb_} bytes per row, n_features={nf_}: shape {got_u.shape}",
                                     "case": {"bytes": Pk.tolist(), "n_features": nf_}})
            # medoid: a member minimising the complementary similarity (exact rational reference), sets of 1..6 rows
            # with the emphasis on exactly three (the smallest set that is searched at all)
            nm = rng.choice([1, 2, 3, 3, 3, 3, 4, 5, 6])
            Fm = rng.randint(2, 24)
            base = [1 if rng.random() < 0.5 else 0 for _ in range(Fm)]
            mrows = [[b ^ (1 if rng.random() < rng.choice([0.05, 0.3, 0.6]) else 0) for b in base] for _ in range(nm)]
            if nm >= 3 and rng.random() < 0.2:
                # exactly one populated row, the others empty: removing it leaves only empty fingerprints
                mrows = [[0] * Fm for _ in range(nm)]
                mrows[rng.randrange(nm)] = [1 if rng.random() < 0.6 else 0 for _ in range(Fm - 1)] + [1]
            rng.shuffle(mrows)
            Xm = np.asarray(mrows, dtype=np.uint8).reshape(nm, Fm)
            cnt["medoid"] = cnt.get("medoid", 0) + 1
            try:
                mi_u, mr_u = sim.jt_isim_medoid(Xm, input_is_packed=False, pack=False)
                mi_p, mr_p = sim.jt_isim_medoid(np.packbits(Xm, axis=1), input_is_packed=True, n_features=Fm, pack=False)
                ivm = f"{int(mi_u)}"
                if int(mi_u) != int(mi_p) or np.asarray(mr_u).tolist() != Xm[int(mi_u)].tolist() or np.asarray(mr_p).tolist() != Xm[int(mi_u)].tolist():
                    res.failures.append({"signature": "C12:medoid-row-or-index-inconsistent", "what": f"{int(mi_u)} vs {int(mi_p)}",
                                         "case": {"F": Fm, "rows": mrows}})
                if nm >= 3:
                    def exact_isim(rs):
                        n_ = len(rs)
                        ks = [sum(r[q] for r in rs) for q in range(Fm)]
                        num = sum(k * (k - 1) // 2 for k in ks)
                        den = sum(k * (k - 1) // 2 + k * (n_ - k) for k in ks)
                        return None if den == 0 else Fraction(num, den)
                    ex = [exact_isim([r for j, r in enumerate(mrows) if j != i]) for i in range(nm)]
                    fl = [1.0 if e is None else float(e) for e in ex]
                    if fl[int(mi_u)] != min(fl):
                        res.failures.append({"signature": "C12:medoid-does-not-minimise-complementary-similarity",
                                             "what": f"index {int(mi_u)}: {fl[int(mi_u)]} > min {min(fl)}", "case": {"F": Fm, "rows": mrows}})
            except Exception as e:  # noqa: BLE001
                ivm = err_name(e)
            mvm = d.cmd(f"COMPL F={Fm} rows={rows_hex(mrows)}").split(" ")[-1]
            res.evaluations += 1
            if mvm != ivm and res.disagreement is None:
                res.disagreement = {"what": "jt_isim_medoid", "F": Fm, "rows": mrows, "model": mvm, "impl": ivm}
            if len(res.samples) < 2:
                res.samples.append({"F": F, "rows": [row_hex(r) for r in rows], "dissim": mv[:80]})
    finally:
        d.close()
    res.counters = cnt
    res.failures = res.failures[:3]
    return res


# ------------------------------------------------------------------------------ C10
def gen_summary(rng: random.Random, F: int, n: int, p: list[float]) -> list[int]:
    # above 60 members: 60 draws scaled to n (a saturated column, p = 1, stays saturated: k = n)
    return [min(n, (sum(1 for _ in range(60) if rng.random() < pi) * n + 59) // 60) if n > 60 else
            sum(1 for _ in range(n) if rng.random() < pi) for pi in p]


def suite_merge(tier: str, seed: int, mult: int) -> SuiteResult:
    rng = random.Random(seed + 29)
    res = SuiteResult("S-MERGE")
    d = Driver()
    d.cmd(exp_table_line(6001))
    cnt = {c: {"accept": 0, "reject": 0} for c in CRITS}
    cnt.update({"old_singleton": 0, "old_ge_1000": 0, "laws_checked": 0})
    fns = {}
    try:
        n_cases = (500 if tier == "quick" else 8000) * mult
        order = []
        for _ in range(n_cases):
            F = rng.randint(1, 24)
            # saturated columns (p = 1) reach the counter width exactly at n = 255 / 65535
            proto = [rng.choice([0.05, 0.5, 0.95, 1.0, 0.0] if rng.random() < 0.3 else [0.05, 0.5, 0.95]) for _ in range(F)]
            n_old = rng.choice([1, 1, 2, 3, 5, 17, 254, 255, 255, 256, 999, 1000, 1001, 5000, 65534, 65535])
            n_nom = rng.choice([1, 1, 1, 2, 7, 300])
            noise = rng.choice([0.0, 0.1, 0.4])
            p_old = proto
            p_nom = [min(1, max(0, x + rng.uniform(-noise, noise))) for x in proto]
            old = gen_summary(rng, F, n_old, p_old)
            nom = gen_summary(rng, F, n_nom, p_nom)
            old = [min(k, n_old) for k in old]
            nom = [min(k, n_nom) for k in nom]
            thr = rng.choice([0.0, 0.1, 0.3, 0.5, 0.65, 0.9, 1.0, rng.random()])
            tol = rng.choice([0.0, 0.05, 0.5, 5.0])
            for crit in CRITS:
                order.append((crit, tol, thr, n_old, old, n_nom, nom))
        rng.shuffle(order)  # any call order, interleaved across instances
        for crit, tol, thr, n_old, old, n_nom, nom in order:
            if rng.random() < 0.5:
                fn = fns.setdefault((crit, tol), get_merge_accept_fn(crit, tol))
            else:
                # one long-lived object per criterion whose tolerance is re-assigned in place, as
                # BitBirch.set_merge(tolerance=...) and the tolerance setter do
                fn = fns.setdefault((crit, "shared"), get_merge_accept_fn(crit, tol))
                if hasattr(fn, "tolerance"):
                    fn.tolerance = tol
            new_n = n_old + n_nom
            o = np.asarray(old, dtype=min_safe_uint(n_old))
            m = np.asarray(nom, dtype=min_safe_uint(n_nom))
            new_ls = np.add(o, m, dtype=min_safe_uint(new_n))
            a1 = bool(fn(thr, new_ls, new_n, o, m, n_old, n_nom))
            a2 = bool(fn(thr, new_ls, new_n, o, m, n_old, n_nom))
            # the same argument VALUES held in uint64 arrays (what the tests and the C++ kernels use)
            a64 = bool(fn(thr, new_ls.astype(np.uint64), new_n, o.astype(np.uint64), m.astype(np.uint64), n_old, n_nom))
            mv = d.cmd(f"ACCEPT crit={crit} tol={show_rat(tol)} thr={show_rat(thr)} oldn={n_old} oldls={show_nats(',', old)} "
                       f"nomn={n_nom} nomls={show_nats(',', nom)}")
            res.evaluations += 1
            cnt[crit]["accept" if a1 else "reject"] += 1
            cnt["old_singleton"] += n_old == 1
            cnt["old_ge_1000"] += n_old >= 1000
            macc = mv.split(" ")[0]
            if macc != ("true" if a1 else "false") and res.disagreement is None:
                res.disagreement = {"what": "accept", "crit": crit, "tol": tol, "thr": thr, "old": (n_old, old), "nom": (n_nom, nom),
                                    "model": mv, "impl": a1}
            case = {"crit": crit, "tol": tol, "thr": thr, "old": [n_old, old], "nom": [n_nom, nom]}
            # laws on the real functions
            cnt["laws_checked"] += 1
            if a1 != a2:
                res.failures.append({"signature": f"C10:{crit}-not-a-pure-function", "what": "two identical calls disagree", "case": case})
            if a1 != a64:
                res.failures.append({"signature": f"C10:{crit}-depends-on-the-dtype-of-the-sums",
                                     "what": f"narrowest dtypes -> {a1}, uint64 -> {a64}", "case": case})
            if crit == "never-merge" and a1:
                res.failures.append({"signature": "C10:never-merge-accepted", "what": "never-merge returned True", "case": case})
            isim = float(sim.jt_isim_from_sum(new_ls.astype(np.uint64), new_n))
            rc = float(sim.jt_isim_radius_compl_from_sum(new_ls.astype(np.uint64), new_n))
            stat = rc if crit in ("radius", "tolerance-radius") else isim
            if a1 and crit != "never-merge" and not stat >= thr:
                res.failures.append({"signature": f"C10:{crit}-accepted-below-threshold", "what": f"stat={stat} thr={thr}", "case": case})
            if a1:
                lower = thr * rng.random()
                if not fn(lower, new_ls, new_n, o, m, n_old, n_nom):
                    res.failures.append({"signature": f"C10:{crit}-not-monotone-in-threshold", "what": f"accepts at {thr}, rejects at {lower}", "case": case})
            if crit in ("tolerance-diameter", "tolerance-radius"):
                if n_old == 1 and a1 != (stat >= thr):
                    res.failures.append({"signature": f"C10:{crit}-singleton-old-cluster-not-base-criterion", "what": f"accept={a1} stat={stat} thr={thr}", "case": case})
                if n_old >= 1000 and stat >= thr:
                    o64 = o.astype(np.uint64)
                    ostat = float(sim.jt_isim_radius_compl_from_sum(o64, n_old) if crit == "tolerance-radius" else sim.jt_isim_from_sum(o64, n_old))
                    if a1 != (stat >= ostat):
                        res.failures.append({"signature": f"C10:{crit}-slack-not-zero-from-1000", "what": f"accept={a1} new={stat} old={ostat}", "case": case})
                if a1:
                    bigger = get_merge_accept_fn(crit, tol + rng.choice([0.01, 1.0]))
                    if not bigger(thr, new_ls, new_n, o, m, n_old, n_nom):
                        res.failures.append({"signature": f"C10:{crit}-not-monotone-in-tolerance", "what": "larger tolerance rejects", "case": case})
            if len(res.samples) < 2:
                res.samples.append({**case, "accept": a1, "model": mv[:120]})
        res.nontrivial = sum(min(v["accept"], v["reject"]) for k, v in cnt.items() if isinstance(v, dict) and k != "never-merge")
        # dispatch
        for name in CRITS:
            fn = get_merge_accept_fn(name, 0.3)
            if fn.name != name or (hasattr(fn, "tolerance") and fn.tolerance != 0.3):
                res.failures.append({"signature": "C10:dispatch-wrong-criterion", "what": name, "case": {"name": name}})
        try:
            get_merge_accept_fn("no-such-criterion", 0.3)
            res.failures.append({"signature": "C10:dispatch-accepts-unknown-name", "what": "no error", "case": {}})
        except ValueError:
            pass
        # np.exp assumptions used by the slack theorems
        prev = None
        for n in range(0, 6002):
            v = float(np.exp(-1e-3 * n))
            if prev is not None and v > prev:
                res.failures.append({"signature": "C10:np.exp-not-antitone", "what": f"n={n}", "case": {}})
                break
            prev = v
        if float(np.exp(-1e-3 * 1000)) != float(get_merge_accept_fn("tolerance-diameter", 0.1).offset):
            res.notes.append("offset differs from exp(-1e-3*1000)")
    finally:
        d.close()
    res.counters = cnt
    res.failures = res.failures[:3]
    return res
