"""S-METRICS: `cluster_analysis` over every fingerprint provider (array, file, file sequence;
packed and unpacked), the CHI / DBI / Dunn indices (packed vs unpacked, permutations of
clusters and of rows), and `bb summary`, against the model (driver commands ANALYSIS,
NUMABOVE, INDICES) and against directly computed values."""
from __future__ import annotations

import math
import os
import pickle
import random
import re
import shutil
import tempfile
import warnings
from fractions import Fraction
from pathlib import Path

from core import Driver, np, show_nats, row_hex
from checklib import SuiteResult, is_known

SCRATCH = os.environ.get("VERIF_SCRATCH", "/var/tmp")


def _fail(res, sig, what, case):
    if all(f["signature"] != sig for f in res.failures):
        res.failures.append({"signature": sig, "what": what, "case": case})


def _stop(res) -> bool:
    return any(is_known("C19", f["signature"]) is None for f in res.failures)


def same(a: float, b: float, rel: float = 1e-9) -> bool:
    a, b = float(a), float(b)
    if math.isnan(a) or math.isnan(b):
        return math.isnan(a) and math.isnan(b)
    if math.isinf(a) or math.isinf(b):
        return a == b
    return abs(a - b) <= rel * max(1.0, abs(a), abs(b))


def model_val(s: str):
    if s == "nan":
        return float("nan")
    return Fraction(s)


def gen_clusters(rng: random.Random, F: int, degenerate: float = 0.15, big: float = 0.06) -> list[list[list[int]]]:
    if rng.random() < big:
        # column sums beyond one byte: a cluster of more than 255 rows next to smaller ones, dense bits
        sizes = rng.choice([[300, 200, 200], [200, 260, 130], [257, 255], [130, 140, 520]])
        out = []
        for n in sizes:
            proto = [1 if rng.random() < 0.8 else 0 for _ in range(F)]
            out.append([[b ^ (1 if rng.random() < 0.1 else 0) for b in proto] for _ in range(n)])
        return out
    if rng.random() < 0.04 and F >= 8:
        # every cluster has iSIM 0 (pairwise disjoint rows): the Dunn index's max(D) == 0 branch
        out = []
        for c in range(rng.choice([2, 3])):
            cols = rng.sample(range(F), rng.choice([2, 3]))
            out.append([[1 if j == col else 0 for j in range(F)] for col in cols])
        return out
    k = rng.choice([1, 2, 2, 3, 4, 6])
    protos = [[1 if rng.random() < 0.5 else 0 for _ in range(F)] for _ in range(k)]
    out = []
    for i in range(k):
        n = rng.choice([1, 2, 3, 5, 9]) if rng.random() < 0.5 else rng.choice([2, 3, 4, 7])
        flip = rng.choice([0.0, 0.1, 0.3]) if rng.random() > degenerate else 0.0
        out.append([[b ^ (1 if rng.random() < flip else 0) for b in protos[i]] for _ in range(n)])
    return out


# ------------------------------------------------------------------------------ indices
def suite_indices(tier: str, seed: int, mult: int) -> SuiteResult:
    from bblean.metrics import jt_isim_chi, jt_dbi, jt_isim_dunn
    rng = random.Random(seed + 149)
    res = SuiteResult("S-METRICS[indices]")
    d = Driver()
    cnt = {"cases": 0, "with_singleton_cluster": 0, "permutations_checked": 0, "python_nonfinite_chi_or_dbi": 0, "dunn_nan": 0,
           "F_not_multiple_of_8": 0, "with_cluster_above_255_rows": 0}
    warnings.simplefilter("ignore")
    try:
        for k in range((250 if tier == "quick" else 6000) * mult):
            F = rng.choice([5, 8, 13, 16, 64])
            cl = gen_clusters(rng, F)
            un = [np.asarray(c, dtype=np.uint8).reshape(len(c), F) for c in cl]
            pk = [np.packbits(c, axis=-1) for c in un]
            cnt["cases"] += 1
            cnt["with_singleton_cluster"] += any(len(c) == 1 for c in cl)
            cnt["with_cluster_above_255_rows"] += any(len(c) > 255 for c in cl)
            cnt["F_not_multiple_of_8"] += F % 8 != 0
            res.evaluations += 1
            case = {"F": F, "clusters": [[row_hex(r) for r in c] for c in cl]}

            def indices(cs, packed):
                kw = dict(input_is_packed=packed, n_features=F if packed else None)
                with np.errstate(all="ignore"):
                    return (float(jt_isim_chi(cs, **kw)), float(jt_dbi(cs, **kw)), float(jt_isim_dunn(cs, **kw)))
            vp = indices(pk, True)
            vu = indices(un, False)
            if k % 5 == 0 and all(len(c) for c in cl):
                # centroids passed explicitly (unpacked, with unpacked input): the same values as the default
                cents = [((2 * c.astype(np.int64).sum(axis=0) >= len(c)) if len(c) > 1 else (c[0] != 0)).astype(np.uint8) for c in un]
                with np.errstate(all="ignore"):
                    ve = (float(jt_isim_chi(un, centrals=cents, input_is_packed=False)), float(jt_dbi(un, centrals=cents, input_is_packed=False)))
                cnt["explicit_centrals"] = cnt.get("explicit_centrals", 0) + 1
                if not same(ve[0], vu[0], 1e-12) or not same(ve[1], vu[1], 1e-12):
                    _fail(res, "C19:indices-with-explicit-centroids-differ-from-the-default", f"{ve} vs {vu[:2]}", case)
            for name, a, b in zip(("chi", "dbi", "dunn"), vp, vu):
                if not same(a, b, 1e-12):
                    _fail(res, f"C19:{name}-differs-between-packed-and-unpacked-input", f"{a} vs {b}", case)
            # the medoid variant of DBI (CHI has none): packed (with and, for whole bytes, without n_features) vs unpacked
            if k % 3 == 0 and all(len(c) for c in cl):
                cnt["medoid_centrals"] = cnt.get("medoid_centrals", 0) + 1
                with np.errstate(all="ignore"):
                    mu = (float(jt_dbi(un, centrals="medoid", input_is_packed=False)),)
                    variants = [("n_features given", dict(input_is_packed=True, n_features=F))]
                    if F % 8 == 0:
                        variants.append(("n_features omitted", dict(input_is_packed=True)))
                    for tag, kw in variants:
                        mp_ = (float(jt_dbi(pk, centrals="medoid", **kw)),)
                        for name, a, b in zip(("dbi",), mp_, mu):
                            if not same(a, b, 1e-12):
                                _fail(res, f"C19:{name}-with-medoids-differs-between-packed-and-unpacked-input",
                                      f"packed ({tag}) {a} vs unpacked {b}", case)
            # permutations of the clusters and of the rows inside them
            for _ in range(3):
                perm = list(range(len(cl)))
                rng.shuffle(perm)
                rows_only = rng.random() < 0.4
                if rows_only:
                    perm = list(range(len(cl)))
                cl2 = [list(un[i]) for i in perm]
                for c in cl2:
                    rng.shuffle(c)
                un2 = [np.asarray(c, dtype=np.uint8).reshape(len(c), F) for c in cl2]
                packed = rng.random() < 0.5
                v2 = indices([np.packbits(c, axis=-1) for c in un2] if packed else un2, packed)
                cnt["permutations_checked"] += 1
                for name, a, b in zip(("chi", "dbi", "dunn"), vp, v2):
                    if not same(a, b):
                        if name == "dunn" and not rows_only and any(len(c) == 1 for c in cl):
                            sig = "C19:dunn-depends-on-cluster-order-when-singleton-clusters-present"
                        else:
                            sig = f"C19:{name}-depends-on-the-order-of-{'rows' if rows_only else 'clusters'}"
                        _fail(res, sig, f"{a} for the clusters as given, {b} for cluster order {perm} with shuffled rows", case)
            # the model
            m = d.cmd(f"INDICES F={F} clusters=" + "|".join(",".join(row_hex(r) for r in c) for c in cl))
            try:
                mv = dict(x.split("=") for x in m.split())
                ok = True
                for name, a in zip(("chi", "dbi", "dunn"), vp):
                    if name != "dunn" and not math.isfinite(a):
                        cnt["python_nonfinite_chi_or_dbi"] += 1   # a zero division: the model is total there, not compared
                        continue
                    ok = ok and same(a, float(model_val(mv[name])))
                cnt["dunn_nan"] += math.isnan(vp[2])
            except Exception:  # noqa: BLE001
                ok = False
            if not ok and res.disagreement is None:
                res.disagreement = {"what": "indices vs model INDICES", "model": m[:400], "impl": f"chi={vp[0]!r} dbi={vp[1]!r} dunn={vp[2]!r}", "case": case}
            if len(cl) > 1:
                res.nontrivial += 1
            if len(res.samples) < 2:
                res.samples.append({"F": F, "sizes": [len(c) for c in cl], "chi": vp[0], "dbi": vp[1], "dunn": vp[2]})
            if _stop(res):
                break
    finally:
        d.close()
    res.counters = cnt
    return res


# ----------------------------------------------------------------------------- analysis
def gen_partition(rng: random.Random, n: int) -> list[list[int]]:
    ids = list(range(n))
    rng.shuffle(ids)
    out = []
    while ids:
        s = rng.choice([1, 1, 2, 3, 5, 12, 101])
        out.append(ids[:s])
        ids = ids[s:]
    return out


def suite_analysis(tier: str, seed: int, mult: int) -> SuiteResult:
    from bblean.analysis import cluster_analysis
    from bblean.similarity import jt_isim
    rng = random.Random(seed + 151)
    res = SuiteResult("S-METRICS[cluster_analysis]")
    d = Driver()
    work = Path(tempfile.mkdtemp(prefix="bbverif-ana-", dir=SCRATCH))
    cnt = {"cases": 0, "provider_calls": 0, "file_sequences": 0, "with_empty_file": 0, "unsorted_input": 0, "sorted_by_the_library": 0, "top_none": 0, "min_size_cuts": 0}
    warnings.simplefilter("ignore")
    try:
        for k in range((100 if tier == "quick" else 1500) * mult):
            F = rng.choice([5, 8, 13, 16, 64])
            n = rng.choice([1, 3, 8, 20, 20, 60, 60, 150])
            protos = [[1 if rng.random() < 0.5 else 0 for _ in range(F)] for _ in range(3)]
            X = np.asarray([[b ^ (1 if rng.random() < 0.15 else 0) for b in rng.choice(protos)] for _ in range(n)], dtype=np.uint8).reshape(n, F)
            P = np.packbits(X, axis=-1)
            clusters = gen_partition(rng, n)
            sorted_in = rng.random() < 0.5
            if sorted_in:
                clusters.sort(key=len, reverse=True)
            top = rng.choice([None, 0, 1, 2, 3, 20])
            ms = rng.choice([0, 2, 2, 3, 4, 6])
            assume_sorted = sorted_in or rng.random() < 0.25
            case = {"F": F, "n": n, "clusters": clusters, "top": top, "min_size": ms, "assume_sorted": assume_sorted}
            cnt["cases"] += 1
            cnt["unsorted_input"] += not sorted_in
            cnt["sorted_by_the_library"] += not assume_sorted
            cnt["top_none"] += top is None
            wd = work / f"a{k}"
            wd.mkdir()
            # providers
            cuts = sorted(rng.sample(range(n + 1), min(rng.choice([1, 2, 3]), n + 1)))
            bounds = [0] + cuts + [n]
            provs = {}
            for packed in (True, False):
                A = P if packed else X
                tag = "packed" if packed else "unpacked"
                provs[f"array-{tag}"] = (A, packed)
                if rng.random() < 0.5:
                    provs[f"array-{tag}-int64"] = (A.astype(np.int64), packed)
                np.save(wd / f"{tag}.npy", A)
                provs[f"file-{tag}"] = (wd / f"{tag}.npy", packed)
                paths = []
                for j in range(len(bounds) - 1):
                    p = wd / f"{tag}-{j:02d}.npy"
                    np.save(p, A[bounds[j]:bounds[j + 1]])
                    paths.append(p)
                if len(A[bounds[0]:bounds[1]]) or True:
                    provs[f"files-{tag}"] = (paths, packed)
            cnt["with_empty_file"] += any(bounds[j] == bounds[j + 1] for j in range(len(bounds) - 1))
            ref = None
            for name, (fps, packed) in provs.items():
                cnt["provider_calls"] += 1
                cnt["file_sequences"] += name.startswith("files-")
                res.evaluations += 1
                try:
                    with np.errstate(all="ignore"):
                        ca = cluster_analysis(clusters, fps, n_features=F if packed else None, top=top, assume_sorted=assume_sorted,
                                              input_is_packed=packed, min_size=ms)
                    got = {"sizes": [int(x) for x in ca.sizes] if ca.clusters_num else [],
                           "isims": [float(x) for x in ca.isims] if ca.clusters_num else [],
                           "total": int(ca.total_fps), "clusters": int(ca.all_clusters_num), "singletons": int(ca.all_singletons_num),
                           "above": [int(ca.all_clusters_num_with_size_above(t)) for t in (0, 1, 2, 10, 100)]}
                    sel = ca.get_top_cluster_fps(packed=False) if ca.clusters_num else []
                    got["selected"] = [np.asarray(s)[:, :F].tolist() for s in sel]
                except Exception as e:  # noqa: BLE001
                    _fail(res, f"C19:cluster_analysis-fails-for-provider:{name.split('-')[0]}:{type(e).__name__}", f"{name}: {e!r}"[:300], case)
                    continue
                if ref is None:
                    ref = (name, got)
                elif got["sizes"] != ref[1]["sizes"] or got["total"] != ref[1]["total"] or got["clusters"] != ref[1]["clusters"] \
                        or got["singletons"] != ref[1]["singletons"] or got["above"] != ref[1]["above"] or got["selected"] != ref[1]["selected"] \
                        or len(got["isims"]) != len(ref[1]["isims"]) or not all(same(a, b, 0.0) for a, b in zip(got["isims"], ref[1]["isims"])):
                    _fail(res, f"C19:cluster_analysis-depends-on-the-provider:{name.split('-')[0]}-{'packed' if packed else 'unpacked'}",
                          f"{name}: {str(got)[:200]} vs {ref[0]}: {str(ref[1])[:200]}", case)
            if ref is not None:
                got = ref[1]
                cl_sorted = clusters if assume_sorted else sorted(clusters, key=len, reverse=True)
                # directly computed values
                sel = []
                for i, c in enumerate(cl_sorted):
                    if len(c) < ms or (top is not None and i >= top):
                        break
                    sel.append(c)
                cnt["min_size_cuts"] += len(sel) < len(cl_sorted) and (top is None or len(sel) < top)
                with np.errstate(all="ignore"):
                    want_isims = [float(jt_isim(X[sorted(c)], input_is_packed=False)) for c in sel]
                if got["sizes"] != [len(c) for c in sel]:
                    _fail(res, "C19:cluster_analysis-sizes-are-not-the-member-list-lengths", f"{got['sizes']} vs {[len(c) for c in sel]}", case)
                elif not all(same(a, b, 1e-12) for a, b in zip(got["isims"], want_isims)):
                    _fail(res, "C19:cluster_analysis-isim-differs-from-the-directly-computed-value", f"{got['isims']} vs {want_isims}", case)
                if got["total"] != n or got["clusters"] != len(clusters) or got["singletons"] != sum(len(c) == 1 for c in clusters) \
                        or got["above"] != [sum(len(c) > t for c in clusters) for t in (0, 1, 2, 10, 100)]:
                    _fail(res, "C19:cluster_analysis-global-counts-wrong", str({k2: got[k2] for k2 in ("total", "clusters", "singletons", "above")}), case)
                if got["selected"] != [X[sorted(c)].tolist() for c in sel]:
                    _fail(res, "C19:cluster_analysis-selected-fingerprints-are-not-the-members-rows", "", case)
                # the model
                m = d.cmd(f"ANALYSIS F={F} top={'-' if top is None else top} min={ms} fps={','.join(row_hex(r) for r in X.tolist())} "
                          f"clusters={';'.join(show_nats('.', c) for c in cl_sorted)}")
                try:
                    mv = dict(x.split("=") for x in m.split())
                    msizes = [int(x) for x in mv["sizes"].split(",")] if mv["sizes"] else []
                    misims = [model_val(x) for x in mv["isims"].split(",")] if mv["isims"] else []
                    ok = msizes == got["sizes"] and len(misims) == len(got["isims"]) and \
                        all((math.isnan(a) and isinstance(b, float)) or (not math.isnan(a) and not isinstance(b, float) and Fraction(a) == b)
                            for a, b in zip(got["isims"], misims)) and \
                        int(mv["total"]) == got["total"] and int(mv["clusters"]) == got["clusters"] and int(mv["singletons"]) == got["singletons"]
                    t = rng.choice([0, 1, 2, 10, 100])
                    ok = ok and int(d.cmd(f"NUMABOVE k={t} clusters={';'.join(show_nats('.', c) for c in clusters)}")) == \
                        got["above"][(0, 1, 2, 10, 100).index(t)]
                except Exception:  # noqa: BLE001
                    ok = False
                if not ok and res.disagreement is None:
                    res.disagreement = {"what": "cluster_analysis vs model ANALYSIS", "model": m[:600], "impl": str({k2: v for k2, v in got.items() if k2 != "selected"})[:600],
                                        "case": case}
                if len(sel) > 1:
                    res.nontrivial += 1
                if len(res.samples) < 2:
                    res.samples.append({"n": n, "top": top, "min_size": ms, "sizes": got["sizes"], "isims": got["isims"][:4]})
            shutil.rmtree(wd, ignore_errors=True)
            if _stop(res):
                break
    finally:
        d.close()
        shutil.rmtree(work, ignore_errors=True)
    res.counters = cnt
    return res


# --------------------------------------------------------------------------- bb summary
def parse_summary(out: str) -> dict:
    def num(pat):
        m = re.search(pat, out)
        return m.group(1).replace(",", "") if m else None
    rows = re.findall(r"[│|]\s*([\d,]+)\s*[│|]\s*([\d.]+)\s*[│|]\s*([\d.]+|nan)\s*[│|]", out)
    return {"total": num(r"Total num\. fps: ([\d,]+)"), "clusters": num(r"Total num\. clusters: ([\d,]+)"),
            "singletons": num(r"Total num\. singletons: ([\d,]+)"), "gt10": num(r"size > 10: ([\d,]+)"), "gt100": num(r"size > 100: ([\d,]+)"),
            "rows": [(a.replace(",", ""), c) for a, _, c in rows],
            "chi": num(r"CHI index: (\S+)"), "dbi": num(r"DBI index: (\S+)"), "dunn": num(r"Dunn index: (\S+)")}


def suite_summary(tier: str, seed: int, mult: int) -> SuiteResult:
    from typer.testing import CliRunner
    from bblean.cli import app
    from bblean.metrics import jt_isim_chi, jt_dbi, jt_isim_dunn
    from bblean.similarity import jt_isim
    rng = random.Random(seed + 157)
    res = SuiteResult("S-METRICS[bb summary]")
    work = Path(tempfile.mkdtemp(prefix="bbverif-sum-", dir=SCRATCH))
    runner = CliRunner()
    cnt = {"calls": 0, "with_metrics": 0, "unpacked": 0, "several_files": 0}
    warnings.simplefilter("ignore")
    try:
        for k in range((12 if tier == "quick" else 200) * mult):
            F = rng.choice([8, 13, 16, 64])
            n = rng.choice([8, 30, 120])
            protos = [[1 if rng.random() < 0.5 else 0 for _ in range(F)] for _ in range(3)]
            X = np.asarray([[b ^ (1 if rng.random() < 0.15 else 0) for b in rng.choice(protos)] for _ in range(n)], dtype=np.uint8).reshape(n, F)
            clusters = sorted(gen_partition(rng, n), key=len, reverse=True)
            top = rng.choice([1, 3, 20])
            outs = {}
            case = {"F": F, "n": n, "clusters": clusters, "top": top}
            metrics = rng.random() < 0.7 and len(clusters) > 1 and len(clusters[1]) >= 2
            for packed in (True, False):
                for nfiles in (1, 2):
                    wd = work / f"s{k}-{int(packed)}-{nfiles}"
                    (wd / "input-fps").mkdir(parents=True)
                    A = np.packbits(X, axis=-1) if packed else X
                    cut = n // 2 if nfiles == 2 else n
                    for j, part in enumerate([A[:cut], A[cut:]][:nfiles]):
                        np.save(wd / "input-fps" / f"f{j}.npy", part)
                    with open(wd / "clusters.pkl", "wb") as f:
                        pickle.dump(clusters, f)
                    args = ["summary", str(wd), "--top", str(top), "--packed-input" if packed else "--unpacked-input", "--no-verbose"]
                    if packed and F % 8:
                        args += ["--n-features", str(F)]
                    if metrics:
                        args += ["--metrics", "--metrics-min-size", "2"]
                    # the table is only printed by a non-silent console
                    args[args.index("--no-verbose")] = "--verbose"
                    r = runner.invoke(app, args, env={"COLUMNS": "200"})
                    cnt["calls"] += 1
                    cnt["with_metrics"] += metrics
                    cnt["unpacked"] += not packed
                    cnt["several_files"] += nfiles > 1
                    res.evaluations += 1
                    if r.exit_code != 0:
                        _fail(res, f"C19:bb-summary-fails:{type(r.exception).__name__}", f"{args[2:]} {r.exception!r}"[:300], case)
                        continue
                    outs[(packed, nfiles)] = parse_summary(r.output)
                    shutil.rmtree(wd, ignore_errors=True)
            vals = list(outs.items())
            for key, v in vals[1:]:
                if v != vals[0][1]:
                    _fail(res, "C19:bb-summary-depends-on-the-representation", f"{key}: {v} vs {vals[0][0]}: {vals[0][1]}"[:500], case)
            if vals:
                v = vals[0][1]
                sel = clusters[:top]
                with np.errstate(all="ignore"):
                    want_rows = [(str(len(c)), f"{float(jt_isim(X[sorted(c)], input_is_packed=False)):.3f}") for c in sel]
                want = {"total": str(n), "clusters": str(len(clusters)), "singletons": str(sum(len(c) == 1 for c in clusters)),
                        "gt10": str(sum(len(c) > 10 for c in clusters)), "gt100": str(sum(len(c) > 100 for c in clusters))}
                if any(v[k2] != want[k2] for k2 in want) or v["rows"] != want_rows:
                    _fail(res, "C19:bb-summary-numbers-wrong", f"{v} vs {want} {want_rows}"[:500], case)
                if metrics:
                    csel = []
                    for i, c in enumerate(clusters):
                        if len(c) < 2 or i >= 100:
                            break
                        csel.append(X[sorted(c)])
                    with np.errstate(all="ignore"):
                        w = (f"{float(jt_isim_chi(csel, input_is_packed=False)):.4f}", f"{float(jt_dbi(csel, input_is_packed=False)):.4e}",
                             f"{float(jt_isim_dunn(csel, input_is_packed=False)):.4f}")
                    if (v["chi"], v["dbi"], v["dunn"]) != w:
                        _fail(res, "C19:bb-summary-indices-differ-from-the-api", f"{(v['chi'], v['dbi'], v['dunn'])} vs {w}", case)
                res.nontrivial += 1
                if len(res.samples) < 1:
                    res.samples.append({"n": n, "summary": v})
            if _stop(res):
                break
    finally:
        shutil.rmtree(work, ignore_errors=True)
    res.counters = cnt
    return res
