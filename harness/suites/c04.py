"""C04 suites: (i) the same ordered fingerprints fed to the real estimator in every
representation ({packed, unpacked} x {ndarray, list, .npy path} x integer dtypes), cut into
1..4 consecutive fit calls, and once in a fresh process — all must equal the single model
run; (ii) S-PAGES: `fit(path)` with `_madvise_dontneed` wrapped, calls compared with the
model's page-release counter machine and range-checked against the mapping and the cursor."""
from __future__ import annotations

import json
import mmap
import os
import random
import shutil
import subprocess
import sys
import tempfile
from pathlib import Path

from core import Driver, np, exp_table_line, impl_out, show_nats
from ops import gen_rows, gen_cfg, new_line, rows_arg, INT_DTYPES
from checklib import SuiteResult

import bblean._memory as mem
from bblean.bitbirch import BitBirch

SCRATCH = os.environ.get("VERIF_SCRATCH", "/var/tmp")


def make_input(rows, F, packed: bool, kind: str, dtype: str, work: Path, tag: str):
    X = np.asarray(rows, dtype=np.uint8).reshape(len(rows), F)
    kw = {"input_is_packed": packed}
    if packed:
        X = np.packbits(X, axis=1)
        kw["n_features"] = F
    else:
        X = X.astype(np.dtype(dtype))
    if kind == "array":
        return X, kw
    if kind == "list":
        return [r for r in X], kw
    p = work / f"{tag}.npy"
    np.save(p, X)
    return (p if kind == "path" else str(p)), kw


def fit_variant(cfg, rows, F, variant, work: Path, tag: str):
    kw0 = {}
    if cfg["crit"] is not None:
        kw0["merge_criterion"] = cfg["crit"]
    if cfg["tol"] is not None:
        kw0["tolerance"] = cfg["tol"]
    t = BitBirch(threshold=cfg["thr"], branching_factor=cfg["bf"], **kw0)
    cuts = variant["cuts"]
    parts = [rows[a:b] for a, b in zip([0] + cuts, cuts + [len(rows)])]
    for i, part in enumerate(parts):
        if not part:
            continue
        X, kw = make_input(part, F, variant["packed"], variant["kind"], variant["dtype"], work, f"{tag}-{i}")
        t.fit(X, **kw)
    return t


CHILD = r"""
import sys, json, os
os.environ["BITBIRCH_NO_EXTENSIONS"] = "1"
sys.path.insert(0, sys.argv[1])
import warnings; warnings.filterwarnings("ignore")
import numpy as np
from bblean.bitbirch import BitBirch
spec = json.load(open(sys.argv[2]))
cfg = spec["cfg"]
kw0 = {}
if cfg["crit"] is not None: kw0["merge_criterion"] = cfg["crit"]
if cfg["tol"] is not None: kw0["tolerance"] = cfg["tol"]
t = BitBirch(threshold=cfg["thr"], branching_factor=cfg["bf"], **kw0)
X = np.asarray(spec["rows"], dtype=np.uint8).reshape(len(spec["rows"]), spec["F"])
t.fit(X, input_is_packed=False)
print(json.dumps(t.get_cluster_mol_ids()))
"""


def suite_repr(tier: str, seed: int, mult: int) -> SuiteResult:
    rng = random.Random(seed + 83)
    res = SuiteResult("S-TREE-OUT[C04 representations/chunkings]")
    d = Driver()
    work = Path(tempfile.mkdtemp(prefix="bbverif-c04-", dir=SCRATCH))
    cnt = {"datasets": 0, "variants": 0, "packed": 0, "path": 0, "list": 0, "array": 0, "multi_call": 0, "subprocess": 0,
           "F_not_multiple_of_8": 0, "interfering_estimators": 0}
    try:
        n_sets = (40 if tier == "quick" else 500) * mult
        for k in range(n_sets):
            F = rng.choice(list(range(1, 25)) + [63, 64, 65, 100])
            rows = gen_rows(rng, F, rng.randint(2, 60))
            cfg = gen_cfg(rng)
            d.cmd(exp_table_line(len(rows) + 2))
            d.cmd(new_line(cfg))
            d.cmd(f"FIT F={F} labels=- rows={rows_arg(F, rows)}")
            mo = d.cmd("OUT")
            cnt["datasets"] += 1
            cnt["F_not_multiple_of_8"] += F % 8 != 0
            outs = {}
            for v in range(5 if tier == "quick" else 10):
                ncuts = rng.choice([0, 0, 1, 2, 3])
                variant = {"packed": rng.random() < 0.5, "kind": rng.choice(["array", "list", "path", "str"]),
                           "dtype": rng.choice(INT_DTYPES), "cuts": sorted(rng.sample(range(1, len(rows)), min(ncuts, len(rows) - 1)))}
                if v % 2 == 1:
                    # unrelated activity in the same process: another estimator with the same parameters is reconfigured and used
                    u = fit_variant(cfg, rows[: max(2, len(rows) // 2)], F, {"packed": False, "kind": "array", "dtype": "uint8", "cuts": []},
                                    work, f"d{k}u{v}")
                    try:
                        u.set_merge(tolerance=rng.choice([0.0, 0.3, 0.9]), threshold=rng.choice([0.1, 0.95]))
                    except ValueError:
                        u.set_merge(threshold=rng.choice([0.1, 0.95]))
                    u.fit(np.asarray(rows, dtype=np.uint8).reshape(len(rows), F), input_is_packed=False)
                    cnt["interfering_estimators"] += 1
                t = fit_variant(cfg, rows, F, variant, work, f"d{k}v{v}")
                io = impl_out(t)
                res.evaluations += 1
                cnt["variants"] += 1
                cnt["packed"] += variant["packed"]
                cnt["multi_call"] += bool(variant["cuts"])
                cnt["path" if variant["kind"] in ("path", "str") else variant["kind"]] += 1
                outs[json.dumps(variant)] = io
                if io != mo and res.disagreement is None:
                    res.disagreement = {"what": "representation/chunking vs single model run", "variant": variant, "cfg": cfg, "F": F,
                                        "rows": rows, "model": mo[:1500], "impl": io[:1500]}
            if len(set(outs.values())) > 1:
                a, b = list(outs.items())[0], [x for x in outs.items() if x[1] != list(outs.values())[0]][0]
                res.failures.append({"signature": "C04:clusters-depend-on-representation-or-chunking",
                                     "what": f"variants {a[0]} and {b[0]} give different clusters",
                                     "case": {"cfg": cfg, "F": F, "rows": rows, "variants": [a[0], b[0]]}})
                break
            if k % (10 if tier == "quick" else 5) == 0:
                spec = work / f"spec{k}.json"
                spec.write_text(json.dumps({"cfg": cfg, "rows": rows, "F": F}))
                r = subprocess.run([sys.executable, "-c", CHILD, os.environ.get("BBLEAN_REPO", "/repo"), str(spec)],
                                   capture_output=True, text=True, timeout=300)
                cnt["subprocess"] += 1
                mine = json.dumps(fit_variant(cfg, rows, F, {"packed": False, "kind": "array", "dtype": "uint8", "cuts": []},
                                              work, f"d{k}sp").get_cluster_mol_ids())
                if r.returncode != 0 or r.stdout.strip() != mine:
                    res.failures.append({"signature": "C04:clusters-differ-in-another-process",
                                         "what": (r.stderr or r.stdout)[-300:], "case": {"cfg": cfg, "F": F, "rows": rows}})
                    break
            if "sorted=[" in mo and any("." in c for c in mo.split("sorted=[")[1].split("]")[0].split(";")):
                res.nontrivial += 1
            if len(res.samples) < 2:
                res.samples.append({"F": F, "n_rows": len(rows), "cfg": cfg, "variants": [json.loads(x) for x in list(outs)[:3]]})
            for p in work.glob(f"d{k}*"):
                p.unlink()
    finally:
        d.close()
        shutil.rmtree(work, ignore_errors=True)
    res.counters = cnt
    return res


def suite_pages(tier: str, seed: int, mult: int) -> SuiteResult:
    rng = random.Random(seed + 89)
    res = SuiteResult("S-PAGES")
    d = Driver()
    work = Path(tempfile.mkdtemp(prefix="bbverif-pages-", dir=SCRATCH))
    cnt = {"files": 0, "releasable": 0, "not_releasable": 0, "madvise_calls": 0, "max_rows": 0, "with_prior_fit": 0}
    P = mmap.PAGESIZE * 512
    try:
        # (bytes per row, dtype, rows): sizes on both sides of the 2 MiB granularity
        shapes = [(256, "uint8", 8000), (256, "uint8", 8192), (256, "uint8", 8193), (256, "uint8", 20000), (128, "uint8", 33000),
                  (100, "uint8", 3000), (64, "uint8", 40000), (256, "uint16", 9000), (32, "uint8", 70000),
                  # row sizes that do not divide 2 MiB, with MORE rows than fit in 2 MiB (nothing may be released: a release
                  # would run ahead of the read cursor)
                  (1000, "uint8", 2300), (100, "uint8", 21500), (3, "uint8", 700000)]
        if tier == "quick":
            shapes = [shapes[i] for i in (1, 2, 3, 5, 7, 9, 10)]
        plan = [(sh, pk) for sh in shapes for pk in (["none", None] if tier == "quick" else ["none", "array", "file", "list"])]
        for (ncols, dt, nrows), pk in plan * mult:
            packed = dt == "uint8"
            rs = np.random.default_rng(rng.randrange(2 ** 32))
            # few distinct rows -> quick merges; never-merge would grow the tree needlessly
            base_rows = rs.integers(0, 256 if packed else 2, size=(3, ncols)).astype(dt)
            X = base_rows[rs.integers(0, 3, size=nrows)]
            path = work / f"p{cnt['files']}.npy"
            np.save(path, X)
            calls = []
            state = {"X": None, "prior": 0, "tree": None}
            real_madv, real_from, real_should = mem._madvise_dontneed, mem._ArrayMemPagesManager.from_bb_input, \
                mem._ArrayMemPagesManager.should_release_curr_page

            def madv(addr, size):
                # the cursor is counted independently of the argument the code passes to its own release test:
                # rows of THIS file that have been inserted when the release happens
                calls.append((int(addr), int(size), state["tree"].num_fitted_fps - state["prior"]))
                return real_madv(addr, size)

            def from_input(X_, can_release=None):
                state["X"] = X_
                return real_from(X_, can_release)

            def should(self, row_idx):
                return real_should(self, row_idx)

            mem._madvise_dontneed = madv
            mem._ArrayMemPagesManager.from_bb_input = staticmethod(from_input)
            mem._ArrayMemPagesManager.should_release_curr_page = should
            import bblean.bitbirch as bb
            real_mgr = bb._ArrayMemPagesManager
            try:
                t = BitBirch(threshold=0.0, branching_factor=50, merge_criterion="diameter")
                state["tree"] = t
                # earlier fit calls on the same estimator (array, list or another file) must not shift the release points
                prior_kind = pk if pk is not None else rng.choice(["array", "file", "list"])
                if prior_kind != "none":
                    kprior = rng.choice([1, 7, 1000, 5000])
                    Xp = X[:kprior]
                    if prior_kind == "file":
                        np.save(work / "prior.npy", Xp)
                        t.fit(work / "prior.npy", input_is_packed=packed, n_features=None)
                    elif prior_kind == "list":
                        t.fit([r for r in Xp], input_is_packed=packed, n_features=None)
                    else:
                        t.fit(Xp, input_is_packed=packed, n_features=None)
                    cnt["with_prior_fit"] += 1
                state["prior"] = t.num_fitted_fps
                calls.clear()
                t.fit(path, input_is_packed=packed, n_features=None)
                Xm = state["X"]
                base = int(Xm.ctypes.data) - int(Xm.offset)
                offset = int(Xm.offset)
                itemsize = int(Xm.dtype.itemsize)
                fsize = os.path.getsize(path)
            finally:
                mem._madvise_dontneed = real_madv
                mem._ArrayMemPagesManager.from_bb_input = real_from
                mem._ArrayMemPagesManager.should_release_curr_page = real_should
                del real_mgr
            cnt["files"] += 1
            cnt["madvise_calls"] += len(calls)
            cnt["max_rows"] = max(cnt["max_rows"], nrows)
            mline = f"PAGES base={base} offset={offset} ncols={ncols} itemsize={itemsize} P={P} nrows={nrows}"
            mv = d.cmd(mline)
            can = mv.startswith("can=true")
            cnt["releasable" if can else "not_releasable"] += 1
            iv = ("can=true " if calls or can else "can=false ") + ",".join(f"{a}:{s}:{r}" for a, s, r in calls)
            res.evaluations += 1
            res.traces += 1
            if calls:
                res.nontrivial += 1
            if mv.strip() != iv.strip() and res.disagreement is None:
                res.disagreement = {"what": "madvise calls", "line": mline, "model": mv, "impl": iv}
            # oracle: inside the mapped file, behind the cursor, page steps
            for a, s, r in calls:
                row_bytes = ncols * itemsize
                if not (a >= base and a + s <= base + fsize and a + s <= base + offset + r * row_bytes and (a - base) % P == 0 and s == P):
                    res.failures.append({"signature": "C04:memory-released-outside-the-file-or-ahead-of-the-read-cursor",
                                         "what": f"madvise({a - base}+base, {s}) after row {r}; file {fsize} B, row {row_bytes} B, offset {offset}",
                                         "case": {"ncols": ncols, "dtype": dt, "nrows": nrows, "prior_fit": prior_kind}})
                    break
            if len(set(c[0] for c in calls)) != len(calls):
                res.failures.append({"signature": "C04:page-released-twice", "what": str(calls[:4]), "case": {"ncols": ncols, "nrows": nrows}})
            if t.num_fitted_fps - state["prior"] != nrows:
                res.failures.append({"signature": "C04:rows-lost-while-releasing-pages", "what": f"{t.num_fitted_fps - state['prior']} of {nrows}", "case": {}})
            if len(res.samples) < 2:
                res.samples.append({"ncols": ncols, "dtype": dt, "nrows": nrows, "calls": [(a - base, s, r) for a, s, r in calls]})
            path.unlink()
            if res.failures:
                break
    finally:
        d.close()
        shutil.rmtree(work, ignore_errors=True)
    res.counters = cnt
    res.failures = res.failures[:1]
    return res
