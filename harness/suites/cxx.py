"""S-CXX: bblean/csrc/similarity.cpp is compiled out of tree on every run (g++ -O2, against the
pybind11 stand-in in harness/cxx) and every kernel is called through ctypes on aligned and
misaligned buffers and compared BIT FOR BIT with the NumPy fallback; second stream: the
estimator is run with the module attributes that the import-time switch would bind re-bound
to the compiled kernels, and its clusters compared with the fallback run."""
from __future__ import annotations

import ctypes as C
import os
import random
import shutil
import struct
import subprocess
import tempfile
from pathlib import Path

from core import np, REPO, VERIF, Driver, show_nats
from checklib import SuiteResult

import bblean._py_similarity as pysim
import bblean.fingerprints as fpmod

SCRATCH = os.environ.get("VERIF_SCRATCH", "/var/tmp")
u8p, u32p, u64p, f64p, lp = (C.POINTER(C.c_uint8), C.POINTER(C.c_uint32), C.POINTER(C.c_uint64), C.POINTER(C.c_double),
                             C.POINTER(C.c_long))


def build(work: Path) -> C.CDLL:
    so = work / "bbk.so"
    cmd = ["g++", "-O2", "-std=c++17", "-fPIC", "-shared", f"-I{VERIF / 'harness' / 'cxx'}",
           f"-DBB_SIMILARITY_CPP={REPO / 'bblean' / 'csrc' / 'similarity.cpp'}", str(VERIF / "harness" / "cxx" / "shim.cpp"), "-o", str(so)]
    r = subprocess.run(cmd, capture_output=True, text=True, timeout=300)
    if r.returncode != 0:
        raise RuntimeError("C++ build failed:\n" + r.stderr[-2000:])
    lib = C.CDLL(str(so))
    lib.c_popcount_1d.restype = C.c_uint32
    lib.c_popcount_1d.argtypes = [C.c_void_p, C.c_long]
    lib.c_popcount_2d.argtypes = [C.c_void_p, C.c_long, C.c_long, C.c_void_p]
    lib.c_unpack_2d.argtypes = [C.c_void_p, C.c_long, C.c_long, C.c_long, C.c_void_p]
    lib.c_centroid.argtypes = [C.c_void_p, C.c_long, C.c_longlong, C.c_int, C.c_void_p]
    lib.c_isim.restype = C.c_double
    lib.c_isim.argtypes = [C.c_void_p, C.c_long, C.c_longlong]
    lib.c_arr_vec.argtypes = [C.c_void_p, C.c_long, C.c_long, C.c_void_p, C.c_void_p]
    lib.c_most_dissimilar.argtypes = [C.c_void_p, C.c_long, C.c_long, C.c_long, C.c_void_p, C.c_void_p, C.c_void_p, C.c_void_p]
    lib.c_isim_unpacked_u8.restype = C.c_double
    lib.c_isim_unpacked_u8.argtypes = [C.c_void_p, C.c_long, C.c_long]
    lib.c_isim_packed_u8.restype = C.c_double
    lib.c_isim_packed_u8.argtypes = [C.c_void_p, C.c_long, C.c_long, C.c_long]
    return lib


def placed(a: np.ndarray, misalign: int) -> np.ndarray:
    """a C-contiguous copy of `a` whose data pointer is 8-byte aligned plus `misalign` bytes"""
    a = np.ascontiguousarray(a)
    raw = np.zeros(a.nbytes + 64, dtype=np.uint8)
    base = raw.ctypes.data
    off = (-base) % 8 + misalign
    view = raw[off:off + a.nbytes].view(a.dtype).reshape(a.shape)
    view[...] = a
    assert view.ctypes.data % 8 == misalign % 8
    return view


def bits(x: float) -> int:
    return struct.unpack("<Q", struct.pack("<d", float(x)))[0]


class Kernels:
    """ctypes adapters with the signatures of the Python functions they replace"""

    def __init__(self, lib):
        self.lib = lib

    def popcount_2d(self, a):
        out = np.zeros(a.shape[0], dtype=np.uint32)
        self.lib.c_popcount_2d(a.ctypes.data, a.shape[0], a.shape[1], out.ctypes.data)
        return out

    def unpack(self, a, n_features=None):
        a2 = np.ascontiguousarray(a.reshape(1, -1) if a.ndim == 1 else a)
        nf = a2.shape[1] * 8 if n_features is None else n_features
        out = np.zeros((a2.shape[0], nf), dtype=np.uint8)
        rc = self.lib.c_unpack_2d(a2.ctypes.data, a2.shape[0], a2.shape[1], -1 if n_features is None else n_features, out.ctypes.data)
        if rc:
            raise RuntimeError("Only features divisible by 8 is supported")
        return out[0] if a.ndim == 1 else out

    def centroid(self, ls, n, pack=True):
        ls = np.ascontiguousarray(ls, dtype=np.uint64)
        out = np.zeros(((len(ls) + 7) // 8) if pack else len(ls), dtype=np.uint8)
        self.lib.c_centroid(ls.ctypes.data, len(ls), int(n), 1 if pack else 0, out.ctypes.data)
        return out

    def isim(self, ls, n):
        ls = np.ascontiguousarray(ls, dtype=np.uint64)
        return self.lib.c_isim(ls.ctypes.data, len(ls), int(n))

    def arr_vec(self, x, y):
        x = np.ascontiguousarray(x)
        y = np.ascontiguousarray(y)
        out = np.zeros(x.shape[0], dtype=np.float64)
        self.lib.c_arr_vec(x.ctypes.data, x.shape[0], x.shape[1], y.ctypes.data, out.ctypes.data)
        return out

    def most_dissimilar(self, Y, n_features=None):
        Y = np.ascontiguousarray(Y)
        n = Y.shape[0]
        i1, i2 = C.c_long(0), C.c_long(0)
        s1, s2 = np.zeros(n), np.zeros(n)
        rc = self.lib.c_most_dissimilar(Y.ctypes.data, n, Y.shape[1], -1 if n_features is None else n_features,
                                        C.byref(i1), C.byref(i2), s1.ctypes.data, s2.ctypes.data)
        if rc:
            raise RuntimeError("Only features divisible by 8 is supported")
        return i1.value, i2.value, s1, s2


def suite_kernels(tier: str, seed: int, mult: int) -> SuiteResult:
    rng = random.Random(seed + 101)
    nrng = np.random.default_rng(seed + 101)
    res = SuiteResult("S-CXX[kernels]")
    work = Path(tempfile.mkdtemp(prefix="bbverif-cxx-", dir=SCRATCH))
    cnt = {"popcount": 0, "unpack": 0, "centroid": 0, "isim": 0, "arr_vec": 0, "dissim": 0, "misaligned": 0, "fast_path_64B": 0,
           "byte_path": 0, "big_counts": 0, "undefined_domain_skipped": 0}

    def fail(sig, what, case):
        if len(res.failures) < 2:
            res.failures.append({"signature": sig, "what": what, "case": case})

    try:
        K = Kernels(build(work))
        n_cases = (300 if tier == "quick" else 5000) * mult
        for k in range(n_cases):
            nbytes = rng.choice([1, 2, 3, 7, 8, 9, 16, 32, 63, 64, 65, 128, 192, 256])
            # mostly small sets; every 12th case a set whose column sums need the full counter width (128..260 rows)
            n = rng.randint(1, 9) if k % 12 else rng.choice([128, 150, 200, 255, 256, 260])
            if n > 9:
                nbytes = rng.choice([1, 2, 3, 8, 9])
            dens = rng.choice([0.0, 0.1, 0.5, 0.9, 1.0]) if n <= 9 else rng.choice([0.5, 0.7, 0.9, 1.0])
            Xb = (nrng.random((n, nbytes * 8)) < dens).astype(np.uint8)
            X = np.packbits(Xb, axis=1)
            mis = rng.choice([0, 0, 1, 3, 4, 7])
            Xa = placed(X, mis)
            cnt["misaligned"] += mis != 0
            cnt["fast_path_64B" if (mis == 0 and nbytes % 64 == 0) else "byte_path"] += 1
            # popcount
            cnt["popcount"] += 1
            res.evaluations += 1
            a, b = K.popcount_2d(Xa), pysim._popcount(X)
            if a.tolist() != b.tolist():
                fail("C13:popcount-differs", f"{a.tolist()} vs {b.tolist()}", {"bytes": nbytes, "misalign": mis})
            # unpack (defined for whole bytes)
            cnt["unpack"] += 1
            if not np.array_equal(K.unpack(Xa), fpmod.unpack_fingerprints(X)):
                fail("C13:unpack-differs", f"nbytes={nbytes}", {"bytes": nbytes})
            if nbytes > 1:
                # fewer features than the row holds (a multiple of 8, the only case the kernel accepts): both truncate
                nf8 = 8 * rng.randint(1, nbytes - 1)
                if not np.array_equal(K.unpack(Xa, nf8), fpmod.unpack_fingerprints(X, nf8)) \
                        or not np.array_equal(K.unpack(Xa[0], nf8), fpmod.unpack_fingerprints(X[0], nf8)):
                    fail("C13:unpack-with-n_features-differs", f"nbytes={nbytes} n_features={nf8}", {"bytes": nbytes, "n_features": nf8})
            # array-vs-vector Tanimoto
            y = placed(X[rng.randrange(n)] if rng.random() < 0.5 else np.packbits((nrng.random(nbytes * 8) < 0.5).astype(np.uint8)),
                       rng.choice([0, 0, 2, 5]))
            cnt["arr_vec"] += 1
            a, b = K.arr_vec(Xa, y), pysim._jt_sim_arr_vec_packed(X, np.ascontiguousarray(y))
            if [bits(v) for v in a] != [bits(v) for v in b]:
                fail("C13:arr-vec-tanimoto-bits-differ", f"{a.tolist()} vs {b.tolist()}", {"bytes": nbytes, "misalign": mis,
                                                                                          "rows": X.tolist(), "y": y.tolist()})
            # most dissimilar
            cnt["dissim"] += 1
            i1, i2, s1, s2 = K.most_dissimilar(Xa, nbytes * 8)
            j1, j2, t1, t2 = pysim.jt_most_dissimilar_packed(X, nbytes * 8)
            if (i1, i2) != (int(j1), int(j2)) or [bits(v) for v in s1] != [bits(v) for v in t1] or [bits(v) for v in s2] != [bits(v) for v in t2]:
                fail("C13:most-dissimilar-differs", f"({i1},{i2}) vs ({int(j1)},{int(j2)})", {"bytes": nbytes, "rows": X.tolist()})
            # centroid / isim from sums, counts up to 2^33
            big = rng.random() < 0.3
            nn = rng.choice([0, 1, 2, 3, 5, 255, 256, 1000]) if not big else rng.randint(2 ** 31, 2 ** 33)
            cnt["big_counts"] += big
            F = nbytes * 8
            ls = np.asarray([rng.choice([0, nn, rng.randint(0, max(nn, 0)), nn // 2, (nn + 1) // 2]) for _ in range(F)], dtype=np.uint64)
            if nn <= 1:
                ls = np.minimum(ls, 1)
            cnt["centroid"] += 1
            for pack in (True, False):
                a, b = K.centroid(ls, nn, pack), pysim.centroid_from_sum(ls, nn, pack=pack)
                if a.tolist() != np.asarray(b).tolist():
                    fail("C13:centroid-differs", f"n={nn} pack={pack}", {"n": nn, "ls": ls.tolist()[:64]})
            # the same sums held in the narrowest unsigned dtype, as the tree holds them (pybind11 casts them to uint64
            # for the kernel; the fallback receives them as they are), at counts around the width boundaries
            from bblean.utils import min_safe_uint as _msu
            nw = rng.choice([127, 128, 200, 255, 256, 32767, 32768, 65535, 65536])
            lsw = np.asarray([rng.choice([0, nw, nw // 2, (nw + 1) // 2, rng.randint(0, nw)]) for _ in range(F)], dtype=_msu(nw))
            cnt["narrow_sums"] = cnt.get("narrow_sums", 0) + 1
            for pack in (True, False):
                a, b = K.centroid(lsw, nw, pack), pysim.centroid_from_sum(lsw, nw, pack=pack)
                if a.tolist() != np.asarray(b).tolist():
                    fail("C13:centroid-differs-on-narrow-dtype-sums", f"n={nw} dtype={lsw.dtype} pack={pack}", {"n": nw, "ls": lsw.tolist()[:64]})
            a, b = K.isim(lsw, nw), pysim.jt_isim_from_sum(lsw, nw)
            if bits(a) != bits(b) and not (a != a and b != b):
                fail("C13:isim-from-sum-differs-on-narrow-dtype-sums", f"{a!r} vs {b!r}", {"n": nw, "ls": lsw.tolist()[:64]})
            cnt["isim"] += 1
            a, b = K.isim(ls, nn), pysim.jt_isim_from_sum(ls, nn)
            if bits(a) != bits(b) and not (a != a and b != b):
                fail("C13:isim-from-sum-bits-differ", f"{a!r} vs {b!r}", {"n": nn, "ls": ls.tolist()[:64]})
            if len(res.samples) < 2:
                res.samples.append({"row_bytes": nbytes, "rows": n, "misalign": mis, "n_for_sums": int(nn)})
            res.nontrivial += 1
        # outside the common domain: n_features % 8 != 0 is rejected by the compiled unpack
        try:
            K.unpack(np.zeros((2, 2), dtype=np.uint8), 13)
            res.notes.append("compiled unpack accepted n_features=13")
        except RuntimeError:
            cnt["undefined_domain_skipped"] += 1
    finally:
        shutil.rmtree(work, ignore_errors=True)
    res.counters = cnt
    return res


def suite_end_to_end(tier: str, seed: int, mult: int) -> SuiteResult:
    """estimator with the compiled kernels bound where the import-time switch binds them"""
    rng = random.Random(seed + 103)
    res = SuiteResult("S-CXX[end-to-end]")
    work = Path(tempfile.mkdtemp(prefix="bbverif-cxx2-", dir=SCRATCH))
    cnt = {"runs": 0, "multi_member": 0, "height_ge1": 0}
    import bblean.bitbirch as bb
    import bblean.similarity as sim
    import bblean._merges as mg
    from ops import gen_rows, gen_cfg
    try:
        K = Kernels(build(work))
        saved = (bb._jt_sim_arr_vec_packed, bb.jt_most_dissimilar_packed, bb._unpack_fingerprints, sim.jt_isim_from_sum, mg.jt_isim_from_sum)

        def run(cfg, X, F, compiled: bool):
            if compiled:
                bb._jt_sim_arr_vec_packed = K.arr_vec
                bb.jt_most_dissimilar_packed = K.most_dissimilar
                bb._unpack_fingerprints = K.unpack
                sim.jt_isim_from_sum = K.isim
                mg.jt_isim_from_sum = K.isim
            try:
                kw = {}
                if cfg["crit"] is not None:
                    kw["merge_criterion"] = cfg["crit"]
                if cfg["tol"] is not None:
                    kw["tolerance"] = cfg["tol"]
                t = bb.BitBirch(threshold=cfg["thr"], branching_factor=cfg["bf"], **kw)
                t.fit(X, input_is_packed=True, n_features=F)
                if rng.random() < 0.5:
                    t.recluster_inplace(iterations=1)
                return t.get_cluster_mol_ids(), [np.asarray(c).tobytes() for c in t.get_centroids()], t._root is not None and not t._root.is_leaf
            finally:
                (bb._jt_sim_arr_vec_packed, bb.jt_most_dissimilar_packed, bb._unpack_fingerprints, sim.jt_isim_from_sum,
                 mg.jt_isim_from_sum) = saved

        for k in range((60 if tier == "quick" else 800) * mult):
            F = rng.choice([8, 16, 24, 64, 128, 512])
            rows = gen_rows(rng, F, rng.randint(2, 80))
            cfg = gen_cfg(rng)
            X = np.packbits(np.asarray(rows, dtype=np.uint8).reshape(len(rows), F), axis=1)
            st = rng.getstate()
            a = run(cfg, X, F, False)
            rng.setstate(st)
            b = run(cfg, X, F, True)
            cnt["runs"] += 1
            res.evaluations += 1
            cnt["multi_member"] += any(len(c) > 1 for c in a[0])
            cnt["height_ge1"] += bool(a[2])
            if any(len(c) > 1 for c in a[0]) and a[2]:
                res.nontrivial += 1
            if a[:2] != b[:2]:
                res.failures.append({"signature": "C13:clustering-depends-on-whether-the-compiled-kernels-are-used",
                                     "what": f"F={F}, {len(rows)} rows, cfg={cfg}", "case": {"cfg": cfg, "F": F, "rows": rows}})
                break
            if len(res.samples) < 2:
                res.samples.append({"F": F, "n_rows": len(rows), "cfg": cfg, "clusters": len(a[0])})
    finally:
        shutil.rmtree(work, ignore_errors=True)
    res.counters = cnt
    return res


def suite_transcription(tier: str, seed: int, mult: int) -> SuiteResult:
    """the Lean transcription of the C++ kernels (driver command CXX) vs the compiled kernels"""
    rng = random.Random(seed + 107)
    nrng = np.random.default_rng(seed + 107)
    res = SuiteResult("S-CXX[transcription vs compiled]")
    work = Path(tempfile.mkdtemp(prefix="bbverif-cxx3-", dir=SCRATCH))
    d = Driver()
    cnt = {"popcount": 0, "unpack": 0, "centroid": 0, "isim": 0, "arrvec": 0, "dissim": 0, "throws": 0}
    from core import show_rat

    def hexrow(r):
        return bytes(np.asarray(r, dtype=np.uint8).tolist()).hex()

    def note(kind, a, b, ctx):
        res.evaluations += 1
        cnt[kind] += 1
        if a != b and res.disagreement is None:
            res.disagreement = {"what": f"Lean transcription of {kind} vs compiled kernel", "model": b[:600], "impl": a[:600], **ctx}

    try:
        lib = build(work)
        for _ in range((250 if tier == "quick" else 4000) * mult):
            nb = rng.choice([1, 2, 3, 7, 8, 9, 16, 63, 64, 65, 128])
            n = rng.randint(1, 6)
            dens = rng.choice([0, 0.1, 0.5, 0.9, 1.0])
            X = np.packbits((nrng.random((n, nb * 8)) < dens).astype(np.uint8), axis=1)
            mis = rng.choice([0, 0, 1, 4])
            Xa = placed(X, mis)
            al = 1 if mis == 0 else 0
            rows = ",".join(hexrow(r) for r in X)
            out = np.zeros(n, dtype=np.uint32)
            lib.c_popcount_2d(Xa.ctypes.data, n, nb, out.ctypes.data)
            note("popcount", " ".join(map(str, out.tolist())), d.cmd(f"CXX op=popcount aligned={al} rows={rows}"), {"rows": rows, "aligned": al})
            nf = rng.choice([-1, -1, 8 * nb, 8 * rng.randint(0, nb), rng.randint(0, 8 * nb)])
            nfo = nb * 8 if nf < 0 else nf
            o2 = np.zeros((n, nfo + 8), dtype=np.uint8)[:, :nfo].copy()
            rc = lib.c_unpack_2d(Xa.ctypes.data, n, nb, nf, o2.ctypes.data if nfo % 8 == 0 else np.zeros((n, nfo + 16), dtype=np.uint8).ctypes.data)
            a = "err" if rc else ",".join(hexrow(r) for r in o2)
            cnt["throws"] += bool(rc)
            note("unpack", a, d.cmd(f"CXX op=unpack rows={rows} nf={'-' if nf < 0 else nf}"), {"rows": rows, "nf": nf})
            L = rng.choice([8, 16, 24, 8 * nb])
            nn = rng.choice([-3, 0, 1, 2, 3, 5, n, 1000, 2 ** 40])
            if nn <= 1:
                ks = [rng.choice([0, 1]) if rng.random() < 0.8 else rng.randint(0, 2 ** 64 - 1) for _ in range(L)]
            else:
                ks = [rng.randint(0, max(nn, 1)) if rng.random() < 0.9 else rng.randint(0, 2 ** 52) for _ in range(L)]
            for pk in (0, 1):
                ls = np.array(ks, dtype=np.uint64)
                o = np.zeros(L // 8 if pk else L, dtype=np.uint8)
                lib.c_centroid(ls.ctypes.data, L, nn, pk, o.ctypes.data)
                note("centroid", hexrow(o), d.cmd(f"CXX op=centroid n={nn} pack={pk} ks={','.join(map(str, ks))}"), {"n": nn, "ks": ks, "pack": pk})
            nn = rng.choice([-1, 1, 2, 3, n, 100, 2 ** 33, 2 ** 62])
            ks = [rng.randint(0, max(nn, 1)) if rng.random() < 0.7 else rng.randint(0, 2 ** 64 - 1) for _ in range(rng.randint(1, 12))]
            if rng.random() < 0.1:
                ks = [0] * len(ks)
            ls = np.array(ks, dtype=np.uint64)
            v = lib.c_isim(ls.ctypes.data, len(ks), nn)
            b = d.cmd(f"CXX op=isim n={nn} ks={','.join(map(str, ks))}")
            if v != v:
                note("isim", "nan", b, {"n": nn, "ks": ks})
            elif v not in (float("inf"), float("-inf")):
                note("isim", show_rat(v), b, {"n": nn, "ks": ks})
            y = np.packbits((nrng.random(nb * 8) < rng.choice([0, 0.3, 0.8])).astype(np.uint8))
            ya = placed(y, mis)
            o = np.zeros(n)
            lib.c_arr_vec(Xa.ctypes.data, n, nb, ya.ctypes.data, o.ctypes.data)
            note("arrvec", ",".join(show_rat(x) for x in o), d.cmd(f"CXX op=arrvec aligned={al} rows={rows} y={hexrow(y)}"), {"rows": rows, "y": hexrow(y)})
            nf = rng.choice([-1, -1, 8 * nb, 8 * nb, 8 * rng.randint(1, nb) if nb > 1 else 8, rng.randint(1, 8 * nb)])
            if nf > 8 * nb:
                nf = 8 * nb
            i1, i2 = C.c_long(0), C.c_long(0)
            s1, s2 = np.zeros(n), np.zeros(n)
            rc = lib.c_most_dissimilar(Xa.ctypes.data, n, nb, nf, C.byref(i1), C.byref(i2), s1.ctypes.data, s2.ctypes.data)
            a = "err" if rc else f"{i1.value} {i2.value} {','.join(show_rat(x) for x in s1)} {','.join(show_rat(x) for x in s2)}"
            cnt["throws"] += bool(rc)
            note("dissim", a, d.cmd(f"CXX op=dissim aligned={al} rows={rows} nf={'-' if nf < 0 else nf}"), {"rows": rows, "nf": nf})
            res.nontrivial += 1
            if len(res.samples) < 2:
                res.samples.append({"row_bytes": nb, "rows": n, "aligned": al})
    finally:
        d.close()
        shutil.rmtree(work, ignore_errors=True)
    res.counters = cnt
    return res
