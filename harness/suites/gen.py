"""S-GEN — the generated model (lean/BBGen/Gen.lean, written by tools/py2lean.py) against the real
Python functions it was translated from, on the same arguments.

This validates the two trusted pieces of the translator tie at once: the translator itself (did it
read the statement the way Python executes it?) and the value algebra `BB.PV` of PyNum.lean (NEP-50
promotion, unsigned wrap-around, float64 rounding, NaN comparisons, truncation of `int()`).
Values cross the line protocol as PV literals (`i:5`, `u:u64:7`, `f:num/den`, `a:u8:1,2,3`, …) and
are compared as strings: type AND value must agree."""
from __future__ import annotations

import os
import random

import numpy as np

from checklib import SuiteResult
from core import Driver, show_rat

W = {np.dtype(np.uint8): "u8", np.dtype(np.uint16): "u16", np.dtype(np.uint32): "u32", np.dtype(np.uint64): "u64"}


def pv(x) -> str:
    """PV literal of a real Python / NumPy value"""
    if x is None:
        return "none"
    if isinstance(x, (bool, np.bool_)):
        return f"b:{int(bool(x))}"
    if isinstance(x, np.dtype):
        return "dt:object" if x.hasobject else f"dt:{W[x]}"
    if isinstance(x, np.ndarray):
        if x.dtype == np.bool_:
            return "ba:" + (",".join(str(int(v)) for v in x) or "-")
        return f"a:{W[x.dtype]}:" + (",".join(str(int(v)) for v in x) or "-")
    if isinstance(x, np.unsignedinteger):
        return f"u:{W[x.dtype]}:{int(x)}"
    if isinstance(x, (int, np.integer)):
        return f"i:{int(x)}"
    if isinstance(x, (float, np.floating)):
        if x != x:
            return "f:nan"
        if x in (float("inf"), float("-inf")):
            return "err:div0"
        return f"f:{show_rat(float(x))}"
    if isinstance(x, str):
        return "s:" + x.replace("\n", "\\n")
    if type(x).__module__ == "bblean._merges" or hasattr(x, "__call__") and hasattr(x, "name") and not isinstance(x, type):
        # a merge-function object: class name and its instance attributes in sorted order (at most three)
        attrs = [a for a in ("decay", "offset", "tolerance") if a in getattr(x, "__dict__", {})]
        vals = [pv(float(getattr(x, a))) for a in attrs] + ["none"] * (3 - len(attrs))
        return "o|" + type(x).__name__ + "|" + "|".join(vals)
    if isinstance(x, list):          # a Python list of ints (mol_indices)
        return "a:big:" + (",".join(str(int(v)) for v in x) or "-")
    raise TypeError(type(x))


class NpProxy:
    """stands for the module `np` inside bblean._merges: records every np.exp(argument) -> value"""

    def __init__(self):
        self.calls: dict = {}

    def exp(self, x):
        y = np.exp(x)
        self.calls[show_rat(float(x))] = show_rat(float(y))
        return y

    def __getattr__(self, name):
        return getattr(np, name)


def call_real(f, *a, **k):
    try:
        with np.errstate(all="ignore"):
            return f(*a, **k)
    except ZeroDivisionError:
        return "ERR:ZeroDivisionError"
    except (ValueError, OverflowError, TypeError) as e:
        return f"ERR:{type(e).__name__}"


def show_real(r) -> str:
    if isinstance(r, str) and r.startswith("ERR:"):
        return "err:" + r[4:]
    if isinstance(r, tuple):
        return " ".join(pv(v) for v in r)
    return pv(r)


def iters_prev_max(iters, raws, i, unit) -> float:
    """the running maximum before iteration i (what the loop variable holds)"""
    m = 0.0
    for j in range(i):
        v = raws[j] * unit
        if v > m:
            m = v
    return m


def rand_ls(rng: random.Random, F: int, n: int, dtype, consistent: bool = True) -> np.ndarray:
    hi = min(n, np.iinfo(dtype).max) if consistent else np.iinfo(dtype).max
    p = rng.choice([0.0, 0.1, 0.5, 0.9, 1.0])
    vals = []
    for _ in range(F):
        r = rng.random()
        if r < 0.15:
            vals.append(0)
        elif r < 0.3:
            vals.append(hi)
        elif r < 0.4 and hi >= 1:
            vals.append(max(0, (n + 1) // 2 - rng.choice([0, 1])) if (n + 1) // 2 <= hi else hi)
        else:
            vals.append(min(hi, int(round(p * hi + rng.uniform(-0.2, 0.2) * hi))) if hi else 0)
    return np.asarray([max(0, v) for v in vals], dtype=dtype)


def suite_gen(which: set[str]):
    def run(tier: str, seed: int, mult: int) -> SuiteResult:
        import bblean._merges as M
        import bblean._memory as MEM
        import bblean._py_similarity as PS
        import bblean.similarity as S
        from bblean.utils import min_safe_uint

        rng = random.Random(seed + 4242)
        res = SuiteResult("S-GEN")
        d = Driver()
        cnt: dict = {}
        N = (150 if tier == "quick" else 3000) * mult

        def compare(fn: str, args: list, real, exp_tab: dict | None = None):
            if exp_tab is not None:
                d.cmd("GENEXP tab=" + (";".join(f"{k}={v}" for k, v in exp_tab.items()) or "-"))
            model = d.cmd("GEN " + fn + " " + " ".join(pv(a) if not isinstance(a, str) or not a.startswith("@") else a[1:] for a in args))
            impl = show_real(real)
            # an exception is compared by its kind alone: Python's ZeroDivisionError is the model's `div0`, and a list-valued
            # generated function that has no statement-level propagation carries the error inside its list
            if impl == "err:ZeroDivisionError":
                impl = "err:div0"
            if impl.startswith("err:") and " " in model:
                errs = [t_ for t_ in model.split(" ") if t_.startswith("err:")]
                if errs:
                    model = errs[0]
            res.evaluations += 1
            cnt[fn] = cnt.get(fn, 0) + 1
            if impl not in ("err:div0",) and not impl.startswith("f:") and not impl.startswith("err"):
                pass
            if model != impl and res.disagreement is None:
                res.disagreement = {"what": f"generated {fn} differs from the Python function", "args": [str(pv(a)) if not isinstance(a, str) or not a.startswith('@') else a[1:] for a in args][:12],
                                    "model": model[:300], "impl": impl[:300]}
            if len(res.samples) < 3 and rng.random() < 0.02:
                res.samples.append({"fn": fn, "impl": impl[:100]})
            return model == impl

        dts = [np.uint8, np.uint16, np.uint32, np.uint64]
        try:
            for _ in range(N):
                F = rng.randint(1, 20)
                dt = rng.choice(dts)
                n = rng.choice([0, 1, 2, 3, 5, 17, 100, 127, 128, 254, 255, 256, 1000, 65535, 65536, 10 ** 6, 2 ** 31, 2 ** 32 + 5])
                consistent = rng.random() < 0.8
                if consistent:
                    dt = min_safe_uint(max(n, 1)).type if rng.random() < 0.6 else np.uint64
                ls = rand_ls(rng, F, n, dt, consistent)
                if "min_safe_uint" in which:
                    v = rng.choice([0, 1, 255, 256, 65535, 65536, 2 ** 32 - 1, 2 ** 32, 2 ** 64 - 1, 2 ** 64, 2 ** 70, rng.getrandbits(rng.randint(1, 66))])
                    compare("min_safe_uint", [v], call_real(min_safe_uint, v))
                if "centroid" in which:
                    pack = rng.random() < 0.5
                    compare("centroid_from_sum", [ls, n, pack], call_real(PS.centroid_from_sum, ls, n, pack=pack))
                if "isim" in which:
                    compare("jt_isim_from_sum", [ls, n], call_real(PS.jt_isim_from_sum, ls, n))
                    compare("jt_isim_diameter_from_sum", [ls, n], call_real(S.jt_isim_diameter_from_sum, ls, n))
                    if consistent:
                        compare("jt_isim_radius_compl_from_sum", [ls, n], call_real(S.jt_isim_radius_compl_from_sum, ls, n))
                        compare("jt_isim_radius_from_sum", [ls, n], call_real(S.jt_isim_radius_from_sum, ls, n))
                if "merges" in which and n >= 1:
                    n_nom = rng.choice([1, 1, 2, 9])
                    nom = rand_ls(rng, F, n_nom, min_safe_uint(n_nom).type)
                    old = ls if consistent else rand_ls(rng, F, n, min_safe_uint(max(n, 1)).type)
                    new_n = n + n_nom
                    new = np.add(old, nom, dtype=min_safe_uint(new_n))
                    thr = rng.choice([0.0, 0.3, 0.5, 0.65, 1.0, rng.random()])
                    tol = rng.choice([0.0, 0.05, 0.5, 5.0])
                    call_args = [thr, new, new_n, old, nom, n, n_nom]
                    for cls, lean, attrs in ((M.RadiusMerge, "RadiusMerge_call", []), (M.DiameterMerge, "DiameterMerge_call", []),
                                             (M.ToleranceDiameterMerge, "ToleranceDiameterMerge_call", ["decay", "offset", "tolerance"]),
                                             (M.ToleranceRadiusMerge, "ToleranceRadiusMerge_call", ["decay", "offset", "tolerance"]),
                                             (M.NeverMerge, "NeverMerge_call", ["decay", "offset", "tolerance"]),
                                             (M.ToleranceMerge, "ToleranceMerge_call", ["tolerance"])):
                        obj = cls(tol) if attrs else cls()
                        if attrs and rng.random() < 0.2 and cls is not M.ToleranceMerge:
                            obj = cls(tol, n_max=rng.choice([10, 1000]), decay=rng.choice([1e-3, 0.5]), adaptive=rng.random() < 0.5)
                        proxy = NpProxy()
                        M.np = proxy
                        try:
                            r = call_real(obj, *call_args)
                        finally:
                            M.np = np
                        compare(lean, [float(getattr(obj, a)) for a in attrs] + call_args, r, exp_tab=proxy.calls)
                if "dispatch" in which:
                    name = rng.choice(list(M.BUILTIN_MERGES) + ["no-such", "Radius", ""])
                    tol = rng.choice([0.0, 0.05, 0.7])
                    proxy = NpProxy()
                    M.np = proxy
                    try:
                        o = call_real(M.get_merge_accept_fn, name, tol)
                    finally:
                        M.np = np
                    real = o
                    compare("get_merge_accept_fn", [name if name else "@s:", tol], real, exp_tab=proxy.calls)
                if "pages" in which:
                    P = 4096 * 512
                    iters = rng.choice([1, 3, 512, 8192])
                    k = rng.randint(0, 3 * iters)
                    addr = rng.randint(0, 2 ** 47)
                    can = rng.random() < 0.7
                    mgr = MEM._ArrayMemPagesManager(can, P, iters, addr)
                    compare("_ArrayMemPagesManager_should_release_curr_page", [can, P, iters, addr, k],
                            call_real(mgr.should_release_curr_page, k))
                    rec = []
                    orig = MEM._madvise_dontneed
                    MEM._madvise_dontneed = lambda a, b: rec.append((a, b))
                    try:
                        mgr.release_curr_page_and_update_addr()
                    finally:
                        MEM._madvise_dontneed = orig
                    real = ("_madvise_dontneed", rec[0][0], rec[0][1], mgr.can_release, mgr._pagesizex, mgr._iters_per_pagex,
                            mgr._curr_page_start_addr)
                    compare("_ArrayMemPagesManager_release_curr_page_and_update_addr", [can, P, iters, addr], real)
                    # from_bb_input on a stand-in object exposing exactly the attributes the code reads
                    import mmap as _mmap

                    class FakeMM(np.memmap):
                        pass
                    ncols = rng.choice([1, 8, 100, 128, 256, 1000, 2048, 4096, 3, 2 ** 21, 2 ** 22])
                    off = rng.choice([0, 64, 128, 127, 255, 256, 5000])
                    ndim = rng.choice([2, 2, 2, 1, 3])
                    data = rng.randint(2 ** 20, 2 ** 46)
                    is_mm = rng.random() < 0.8
                    canrel = rng.choice([None, None, True, False])

                    class X:
                        pass
                    x = X()
                    x.ndim, x.shape, x.offset = ndim, (7, ncols), off
                    x.ctypes = X()
                    x.ctypes.data = data
                    orig_isinstance = isinstance

                    def fake_isinstance(o, t):
                        if o is x and t is np.memmap:
                            return is_mm
                        return orig_isinstance(o, t)
                    MEM.__dict__["isinstance"] = fake_isinstance
                    try:
                        m2 = call_real(MEM._ArrayMemPagesManager.from_bb_input, x, canrel)
                    finally:
                        del MEM.__dict__["isinstance"]
                    real = m2 if isinstance(m2, str) else (m2.can_release, m2._pagesizex, m2._iters_per_pagex, m2._curr_page_start_addr)
                    compare("_ArrayMemPagesManager_from_bb_input", [canrel, data, is_mm, ndim, off, ncols, _mmap.PAGESIZE], real)
            if "subcluster" in which:
                import bblean.bitbirch as BBM
                for _ in range(N):
                    F = rng.randint(1, 16)
                    n1 = rng.choice([1, 1, 2, 5, 100, 127, 128, 200, 254, 255, 256, 300, 65534, 65535, 65536, 70000])
                    n2 = rng.choice([1, 1, 1, 2, 3, 128, 255, 256, 1000])
                    mk = lambda n: BBM._BFSubcluster(buffer=np.asarray(
                        [rng.choice([0, n, n // 2, (n + 1) // 2, rng.randint(0, n)]) for _ in range(F)] + [n], dtype=min_safe_uint(n)),
                        mol_indices=list(range(1000, 1000 + n)) if n <= 300 else [7] * n, check_indices=True)
                    if max(n1, n2) > 300 and rng.random() < 0.7:
                        n1 = rng.choice([127, 254, 255])
                    c, sb = mk(n1), mk(n2)

                    def state(o):
                        return (np.array(o._buffer), np.array(o.packed_centroid), o.child, list(o.mol_indices))
                    st_c, st_s = state(c), state(sb)
                    # the constructor, three ways: from a saved buffer (member list of the right / a wrong length, with and
                    # without the check), from one fingerprint, empty
                    kind_i = rng.choice(["buffer", "buffer", "row", "empty"])
                    chk = rng.random() < 0.8
                    if kind_i == "buffer":
                        nb = rng.choice([1, 2, 127, 128, 255, 255, 256, 300])
                        buf = np.asarray([rng.choice([0, nb, nb // 2, (nb + 1) // 2, rng.randint(0, nb)]) for _ in range(F)] + [nb],
                                         dtype=rng.choice([min_safe_uint(nb).type, np.uint64]))
                        ids_ = list(range(nb + rng.choice([0, 0, 0, 1, -1]) if nb > 1 else nb))
                        kw_i = dict(buffer=buf, mol_indices=ids_, check_indices=chk)
                        args_i = [None, ids_, 2048, np.array(buf), chk]
                    elif kind_i == "row":
                        row = np.asarray([rng.randint(0, 1) for _ in range(F)], dtype=np.uint8)
                        ids_ = [rng.randint(0, 99)] * rng.choice([1, 1, 1, 2, 0])
                        kw_i = dict(linear_sum=row, mol_indices=ids_, check_indices=chk)
                        args_i = [np.array(row), ids_, 2048, None, chk]
                    else:
                        ids_ = [] if rng.random() < 0.8 else [3]
                        nfeat = rng.randint(1, 20)
                        kw_i = dict(n_features=nfeat, mol_indices=ids_, check_indices=chk)
                        args_i = [None, ids_, nfeat, None, chk]
                    with np.errstate(all="ignore"):
                        try:
                            o_ = BBM._BFSubcluster(**kw_i)
                            real_i = (None,) + state(o_)
                        except ValueError:
                            real_i = "ERR"
                    if real_i == "ERR":
                        m_ = d.cmd("GEN _BFSubcluster_init " + " ".join(pv(a) for a in args_i)).split(" ")[0]
                        res.evaluations += 1
                        cnt["_BFSubcluster_init"] = cnt.get("_BFSubcluster_init", 0) + 1
                        if m_ != "err:ValueError" and res.disagreement is None:
                            res.disagreement = {"what": "generated _BFSubcluster_init accepts what the constructor refuses",
                                                "args": [pv(a) for a in args_i], "model": m_, "impl": "err:ValueError"}
                    else:
                        compare("_BFSubcluster_init", args_i, real_i)
                    compare("_BFSubcluster_n_samples", list(st_c), c.n_samples)
                    compare("_BFSubcluster_linear_sum", list(st_c), np.array(c.linear_sum))
                    which_m = rng.choice(["update", "add_to", "replace", "merge", "merge"])
                    if which_m == "update":
                        args = list(st_c) + list(st_s)
                        r = call_real(c.update, sb)
                        compare("_BFSubcluster_update", args, r if isinstance(r, str) else state(c))
                    elif which_m == "add_to":
                        args = list(st_c) + [sb.n_samples, np.array(sb.linear_sum)]
                        r = call_real(c.add_to_n_samples_and_linear_sum, sb.n_samples, sb.linear_sum)
                        compare("_BFSubcluster_add_to_n_samples_and_linear_sum", args, r if isinstance(r, str) else state(c))
                    elif which_m == "replace":
                        nn = rng.choice([n1, n1 + n2, 255, 256, 3])
                        ndt = rng.choice([np.uint8, np.uint16, np.uint64])
                        nls = np.asarray([min(rng.randint(0, nn), np.iinfo(ndt).max) for _ in range(F)], dtype=ndt)
                        args = list(st_c) + [nn, nls]
                        r = call_real(c.replace_n_samples_and_linear_sum, nn, nls)
                        compare("_BFSubcluster_replace_n_samples_and_linear_sum", args, r if isinstance(r, str) else state(c))
                    else:
                        crit = rng.choice(list(M.BUILTIN_MERGES))
                        tol = rng.choice([0.0, 0.05, 0.5])
                        thr = rng.choice([0.0, 0.3, 0.65, 1.0, rng.random()])
                        proxy = NpProxy()
                        M.np = proxy
                        try:
                            fn = M.get_merge_accept_fn(crit, tol)
                            r = call_real(c.merge_subcluster, sb, thr, fn)
                        finally:
                            M.np = np
                        args = list(st_c) + list(st_s) + [thr, fn]
                        compare("_BFSubcluster_merge_subcluster", args, r if isinstance(r, str) else (r,) + state(c), exp_tab=proxy.calls)
            if "validate" in which:
                import shutil as _shutil
                import tempfile as _tmp
                from pathlib import Path as _P
                import bblean.cli as CLI
                base = _P(_tmp.mkdtemp(prefix="bbverif-val-", dir=os.environ.get("VERIF_SCRATCH", "/var/tmp")))
                try:
                    for i in range(max(40, N // 4)):
                        kind = rng.choice(["absent", "file", "empty", "files", "subdir", "files"])
                        ow = rng.random() < 0.5
                        pth = base / f"d{i}"
                        if kind == "file":
                            pth.write_text("x")
                        elif kind != "absent":
                            pth.mkdir()
                            if kind == "files":
                                for j in range(rng.randint(1, 3)):
                                    (pth / f"f{j}.pkl").write_text("old")
                            elif kind == "subdir":
                                (pth / "input-fps").mkdir()
                                (pth / "input-fps" / "a.npy").write_text("old")
                        exists, isdir = pth.exists(), pth.is_dir()
                        nonempty = bool(isdir and any(pth.iterdir()))
                        rec = []

                        class ShProxy:
                            def __getattr__(self, k):
                                return getattr(_shutil, k)

                            @staticmethod
                            def rmtree(p_, *a, **k):
                                rec.append(("shutil.rmtree", "out_dir"))
                                return _shutil.rmtree(p_, *a, **k)
                        real_mkdir = _P.mkdir

                        def mk(self_, *a, **k):
                            if self_ == pth:
                                rec.append(("out_dir.mkdir",))
                            return real_mkdir(self_, *a, **k)
                        CLI.shutil, _P.mkdir = ShProxy(), mk
                        try:
                            try:
                                CLI._validate_output_dir(pth, ow)
                                real = tuple(x for r_ in rec for x in r_)
                            except RuntimeError:
                                real = "ERR:RuntimeError"
                        finally:
                            CLI.shutil, _P.mkdir = _shutil, real_mkdir
                        # arguments in the generated function's order: overwrite, any(iterdir), exists, is_dir
                        compare("_validate_output_dir", [ow, nonempty, exists, isdir], real)
                        if real != "ERR:RuntimeError" and nonempty and (not pth.is_dir() or any(pth.iterdir())) and res.disagreement is None:
                            res.disagreement = {"what": "overwrite did not leave an empty directory", "model": "-", "impl": str(sorted(x.name for x in pth.iterdir()) if pth.is_dir() else "gone")}
                finally:
                    _shutil.rmtree(base, ignore_errors=True)
            if "node" in which:
                # real _BFNode objects holding real sub-clusters; sub-clusters as handles (identity -> number), buffer rows as
                # centroid tokens (bytes -> number); the node's two list operations and the packed_centroids view
                import bblean.bitbirch as BBm
                for _ in range(N):
                    bf = rng.choice([2, 3, 5, 8])
                    nf = rng.choice([8, 12, 16, 33])
                    node = BBm._BFNode(bf, nf)
                    node._packed_centroids_buf[:] = np.frombuffer(rng.randbytes(node._packed_centroids_buf.size), dtype=np.uint8).reshape(node._packed_centroids_buf.shape)
                    hid: dict = {}
                    tokens: dict = {}

                    def handle(sc):
                        return hid.setdefault(id(sc), len(hid) + 1)

                    def token(row):
                        return tokens.setdefault(bytes(np.asarray(row, dtype=np.uint8).tobytes()), len(tokens) + 1)

                    def mk_sub():
                        row = np.asarray([rng.random() < 0.5 for _ in range(nf)], dtype=np.uint8)
                        from bblean.fingerprints import pack_fingerprints as _pk
                        sc = BBm._BFSubcluster(linear_sum=row, mol_indices=[rng.randint(0, 99)])
                        handle(sc)
                        return sc
                    keep = []

                    def state_of():
                        return ([handle(x) for x in node._subclusters], [token(r) for r in node._packed_centroids_buf])
                    k0 = rng.randint(0, bf)
                    for _k in range(k0):
                        sc = mk_sub()
                        keep.append(sc)
                        before = state_of()
                        node.append_subcluster(sc)
                        compare("_BFNode_append_subcluster", [before[0], before[1], [], handle(sc), token(sc.packed_centroid)], state_of() + ([],))
                        compare("_BFNode_packed_centroids", list(state_of()) + [[]], [token(r) for r in node.packed_centroids])
                    if k0 >= 1:
                        victim = rng.choice(node._subclusters) if rng.random() < 0.9 else mk_sub()
                        n1, n2 = mk_sub(), mk_sub()
                        keep += [victim, n1, n2]
                        before = state_of()
                        try:
                            node.update_split_subclusters(victim, n1, n2)
                            real = state_of()
                        except ValueError:
                            real = "ERR:ValueError"
                        args = [before[0], before[1], [], handle(victim), handle(n1), handle(n2), token(n1.packed_centroid), token(n2.packed_centroid)]
                        if real == "ERR:ValueError":
                            m = d.cmd("GEN _BFNode_update_split_subclusters " + " ".join(pv(a) for a in args))
                            res.evaluations += 1
                            cnt["_BFNode_split_refused"] = cnt.get("_BFNode_split_refused", 0) + 1
                            if "err:ValueError" not in m and res.disagreement is None:
                                res.disagreement = {"what": "update_split_subclusters of an absent entry", "model": m[:200], "impl": "ValueError"}
                        else:
                            compare("_BFNode_update_split_subclusters", args, real + ([],))
                            # alignment: the valid rows are the centroids of the entries
                            if any(bytes(r.tobytes()) != bytes(x.packed_centroid.tobytes()) for r, x in zip(node.packed_centroids, node._subclusters)) \
                                    and res.disagreement is None:
                                res.disagreement = {"what": "cache rows differ from the entries' centroids after update_split_subclusters", "model": "-", "impl": "-"}
            if "dump" in which:
                # multiround._pickle_dump_atomic for real (real files), its effects recorded at the module's own open / pickle / os
                import builtins as _bi
                import pickle as _pickle
                import shutil as _shutil
                import tempfile as _tmp
                from pathlib import Path as _P
                import bblean.multiround as MRm
                base = _P(_tmp.mkdtemp(prefix="bbverif-dump-", dir=os.environ.get("VERIF_SCRATCH", "/var/tmp")))
                try:
                    for i in range(max(20, N // 6)):
                        ddir = base / f"d{i}"
                        ddir.mkdir()
                        name = rng.choice(["clusters.pkl", "cluster-centroids-packed.pkl", "x.pkl", "round-1-idxs.label-0-uint08.pkl"])
                        final = ddir / name
                        if rng.random() < 0.5:
                            final.write_bytes(_pickle.dumps("old"))
                        if rng.random() < 0.3:
                            (ddir / (name + ".tmp")).write_bytes(b"stale-partial")
                        obj_ = [[rng.randint(0, 99) for _ in range(rng.randint(0, 4))] for _ in range(rng.randint(0, 5))]
                        trace: list = []

                        def tok(p_):
                            return "path" if _P(p_) == final else str(p_)

                        class FProxy:
                            def __init__(self, f, p_):
                                self.f, self.p = f, p_

                            def __enter__(self):
                                self.f.__enter__()
                                return self

                            def __exit__(self, *a):
                                trace.append(("close", tok(self.p)))
                                return self.f.__exit__(*a)

                        def open_(p_, mode="r", **k):
                            trace.append(("open", tok(p_), mode))
                            return FProxy(_bi.open(p_, mode=mode, **k), p_)

                        class PkProxy:
                            def __getattr__(self, k):
                                return getattr(_pickle, k)

                            @staticmethod
                            def dump(o, fh, *a, **k):
                                trace.append(("pickle.dump", tok(fh.p), "obj"))
                                # the final name must still hold what it held, while the temporary file is being written
                                return _pickle.dump(o, fh.f, *a, **k)

                        class OsProxy:
                            def __getattr__(self, k):
                                return getattr(os, k)

                            @staticmethod
                            def replace(a_, b_):
                                trace.append(("os.replace", tok(a_), tok(b_)))
                                return os.replace(a_, b_)
                        saved = {k: MRm.__dict__.get(k, None) for k in ("os", "pickle", "open")}
                        MRm.os, MRm.pickle, MRm.open = OsProxy(), PkProxy(), open_
                        try:
                            MRm._pickle_dump_atomic(obj_, final)
                        finally:
                            for k, v in saved.items():
                                if v is None:
                                    del MRm.__dict__[k]
                                else:
                                    setattr(MRm, k, v)
                        real = tuple(x for t_ in trace for x in t_)
                        compare("_pickle_dump_atomic", [None, name, str(ddir)], real)
                        left = sorted(q.name for q in ddir.iterdir())
                        if (left != [name] or _pickle.loads(final.read_bytes()) != obj_) and res.disagreement is None:
                            res.disagreement = {"what": "after _pickle_dump_atomic the directory is not exactly the complete final file",
                                                "model": name, "impl": str(left)}
                finally:
                    _shutil.rmtree(base, ignore_errors=True)
            if "numbatch" in which:
                # the nested function of `bb fps-from-smiles`, compiled from the very source text of the imported module
                import ast as _ast
                import math as _math
                import bblean.cli as CLIm
                tree_ = _ast.parse(open(CLIm.__file__).read())
                outer = [n for n in tree_.body if isinstance(n, _ast.FunctionDef) and n.name == "_fps_from_smiles"]
                inner = [n for n in (outer[0].body if outer else []) if isinstance(n, _ast.FunctionDef) and n.name == "parse_num_per_batch"]
                if not inner:
                    res.disagreement = {"what": "parse_num_per_batch not found inside cli._fps_from_smiles", "model": "-", "impl": "-"}
                else:
                    ns: dict = {"math": _math}
                    exec(compile(_ast.Module(body=[inner[0]], type_ignores=[]), CLIm.__file__, "exec"), ns)
                    fn_ = ns["parse_num_per_batch"]
                    for _ in range(N):
                        tot = rng.choice([0, 1, 5, 17, 26, 99, 100, 101, 3050, rng.randint(0, 10 ** 4), rng.randint(0, 2 ** 52), 2 ** 53 - 1,
                                          10 ** 15 + rng.randint(0, 9)])
                        pr = rng.choice([None, 1, 2, 9, 10, 99, 100, rng.randint(1, 2000), rng.randint(1, 10 ** 9)])
                        mx = rng.choice([None, None, 1, 2, 7, 1000, rng.randint(1, 10 ** 6)])
                        if rng.random() < 0.03:
                            pr = 0
                        if _ == 0:
                            pr, mx = 0, None          # forced: ZeroDivisionError
                        compare("parse_num_per_batch", [tot, pr, mx], call_real(fn_, tot, pr, mx))
            if "ranges" in which:
                # multiround._get_files_range_tuples on real .npy files (row counts incl. 0, 1-12 files, packed or not): labels, handles
                # (position + 100 stands for the path), starts and ends
                import shutil as _shutil
                import tempfile as _tmp
                from pathlib import Path as _P
                import bblean.multiround as MRm
                base = _P(_tmp.mkdtemp(prefix="bbverif-rg-", dir=os.environ.get("VERIF_SCRATCH", "/var/tmp")))
                try:
                    for i in range(max(30, N // 4)):
                        ddir = base / f"g{i}"
                        ddir.mkdir()
                        nfl = rng.choice([0, 1, 2, 3, 9, 10, 11, 12]) if rng.random() < 0.9 else rng.randint(95, 105)
                        counts = [rng.choice([0, 1, 2, 5, 17, 300]) for _ in range(nfl)]
                        paths = []
                        for j, c_ in enumerate(counts):
                            pth = ddir / f"in-{rng.randint(0, 999)}-{j}.npy"
                            np.save(pth, np.zeros((c_, rng.choice([1, 2, 8])), dtype=np.uint8))
                            paths.append(pth)
                        out = MRm._get_files_range_tuples(paths)
                        hmap = {str(p_): 100 + j for j, p_ in enumerate(paths)}
                        real = tuple(x for (lab, p_, a_, b_) in out for x in (lab, hmap[str(p_)], int(a_), int(b_)))
                        compare("_get_files_range_tuples", [[100 + j for j in range(nfl)], list(counts)], real)
                finally:
                    _shutil.rmtree(base, ignore_errors=True)
            if "reader" in which:
                # _memory.get_peak_memory_gib for real (real files): absent file, complete texts (reprs of floats), proper prefixes
                # of such texts, the empty file; effects recorded at the module's own `open`
                import builtins as _bi
                import shutil as _shutil
                import tempfile as _tmp
                from pathlib import Path as _P
                base = _P(_tmp.mkdtemp(prefix="bbverif-rd-", dir=os.environ.get("VERIF_SCRATCH", "/var/tmp")))
                try:
                    for i in range(max(60, N)):
                        ddir = base / f"r{i}"
                        ddir.mkdir()
                        x = rng.choice([rng.random(), rng.uniform(0, 64), rng.randint(0, 2 ** 34) / 2 ** 30, rng.uniform(1e-7, 1e-3),
                                        rng.uniform(1e15, 1e22), rng.randint(0, 10 ** 6) * MEM._BYTES_TO_GIB])
                        full = repr(x) + "\n"
                        kind = rng.choice(["absent", "full", "full", "prefix", "prefix", "empty", "odd"])
                        text = {"absent": None, "full": full, "prefix": full[:rng.randint(0, len(full) - 1)], "empty": "",
                                "odd": rng.choice([".", "e5", "1e", "+.5e-3\n", "5.\n", "-0.0\n", "\n\n", "1e+"])}[kind]
                        if text is not None:
                            (ddir / "max-rss.txt").write_text(text)
                        trace: list = []

                        class FProxy:
                            def __init__(self, f, p_):
                                self.f, self.p = f, p_

                            def __enter__(self):
                                self.f.__enter__()
                                return self

                            def __exit__(self, *a):
                                trace.append(("close", str(self.p)))
                                return self.f.__exit__(*a)

                            def read(self):
                                trace.append(("read", str(self.p)))
                                return self.f.read()

                        def open_(p_, mode="r", **k):
                            trace.append(("open", str(p_), mode))
                            return FProxy(_bi.open(p_, mode=mode, **k), p_)
                        had = "open" in MEM.__dict__
                        MEM.open = open_
                        try:
                            try:
                                val = MEM.get_peak_memory_gib(ddir)
                            except ValueError:
                                val = "ERR:ValueError"
                        finally:
                            if not had:
                                del MEM.__dict__["open"]
                        if isinstance(val, float) and (val != val or val in (float("inf"), float("-inf"))):
                            continue
                        flat_ = tuple(x_ for t_ in trace for x_ in t_)
                        m = d.cmd("GEN get_peak_memory_gib " + " ".join([pv(str(ddir)), pv(text if text is not None else ""), pv(text is not None)]))
                        want = " ".join(pv(v_) for v_ in flat_) + (" " if flat_ else "") + ("err:ValueError" if val == "ERR:ValueError" else pv(val))
                        res.evaluations += 1
                        cnt["get_peak_memory_gib:" + kind] = cnt.get("get_peak_memory_gib:" + kind, 0) + 1
                        if m != want and res.disagreement is None:
                            res.disagreement = {"what": "generated get_peak_memory_gib differs from the Python function", "text": text, "model": m[:300], "impl": want[:300]}
                        # a complete text reads back as the value written
                        if kind == "full" and val != x and res.disagreement is None:
                            res.disagreement = {"what": "a complete peak file does not read back as the value written", "model": repr(x), "impl": repr(val)}
                finally:
                    _shutil.rmtree(base, ignore_errors=True)
            if "insert" in which:
                # the insertion step on nodes of real trees: the real `_BFNode.insert_bf_subcluster` of ONE node, with what it asks
                # of other objects recorded at depth 0 (np.argmax, merge_subcluster, the recursive call, _split_node, update)
                import bblean as BBL
                import bblean.bitbirch as BBm
                orig_insert = BBm._BFNode.insert_bf_subcluster
                orig_merge = BBm._BFSubcluster.merge_subcluster
                orig_update = BBm._BFSubcluster.update
                orig_split = BBm._split_node
                real_np = BBm.np
                for _ in range(max(40, N // 2)):
                    bf = rng.choice([2, 3, 4])
                    nf = rng.choice([16, 24, 40])
                    est = BBL.BitBirch(threshold=rng.choice([0.5, 0.7, 0.9]), branching_factor=bf, merge_criterion=rng.choice(["diameter", "radius"]))
                    protos = [[rng.random() < 0.5 for _ in range(nf)] for _ in range(rng.randint(2, 10))]
                    rows = np.asarray([[b ^ (rng.random() < 0.08) for b in rng.choice(protos)] for _ in range(rng.choice([0, 1, 3, 12, 30, 60, 60, 90]))],
                                      dtype=np.uint8).reshape(-1, nf)
                    if len(rows):
                        est.fit(rows, input_is_packed=False)
                    # choose a node: the root, a random node below it, or a fresh empty node
                    nodes = []
                    if len(rows):
                        stack = [est._root]
                        while stack:
                            nd = stack.pop()
                            nodes.append(nd)
                            stack.extend(x.child for x in nd._subclusters if x.child is not None)
                    node = (est._root if rng.random() < 0.5 else rng.choice(nodes)) if nodes and rng.random() < 0.93 else BBm._BFNode(bf, nf)
                    row = np.asarray([b ^ (rng.random() < 0.1) for b in rng.choice(protos)] if rng.random() < 0.55
                                     else [rng.random() < 0.5 for _ in range(nf)], dtype=np.uint8)
                    sc = BBm._BFSubcluster(linear_sum=row, mol_indices=[10 ** 6])
                    hid: dict = {}
                    tokens: dict = {}
                    keep: list = [sc]

                    def handle(o):
                        keep.append(o)
                        return hid.setdefault(id(o), len(hid) + 1)

                    def token(r_):
                        return tokens.setdefault(bytes(np.asarray(r_, dtype=np.uint8).tobytes()), len(tokens) + 1)
                    before = ([handle(x) for x in node._subclusters], [token(r_) for r_ in node._packed_centroids_buf])
                    sc_tok = token(sc.packed_centroid)
                    depth = {"d": 0}
                    rec = {"log": [], "idx": None, "merge": None, "child": None, "split": None}

                    class NpP:
                        def __getattr__(self, k):
                            return getattr(real_np, k)

                        @staticmethod
                        def argmax(a_, *aa, **kk):
                            r_ = real_np.argmax(a_, *aa, **kk)
                            if depth["d"] == 0 and rec["idx"] is None:
                                rec["idx"] = int(r_)
                            return r_

                    def w_merge(self_, nominee, thr_, fn_):
                        r_ = orig_merge(self_, nominee, thr_, fn_)
                        if depth["d"] == 0:
                            rec["log"] += [1, handle(self_), handle(nominee)]
                            rec["merge"] = bool(r_)
                        return r_

                    def w_update(self_, other):
                        if depth["d"] == 0:
                            rec["log"] += [4, handle(self_), handle(other)]
                        return orig_update(self_, other)

                    def w_insert(self_, sub_, fn_, thr_):
                        top = depth["d"] == 0
                        if top:
                            rec["log"] += [2, handle(self_), handle(sub_)]
                        depth["d"] += 1
                        try:
                            r_ = orig_insert(self_, sub_, fn_, thr_)
                        finally:
                            depth["d"] -= 1
                        if top:
                            rec["child"] = bool(r_)
                        return r_

                    def w_split(nd_):
                        top = depth["d"] == 0
                        depth["d"] += 1
                        try:
                            r_ = orig_split(nd_)
                        finally:
                            depth["d"] -= 1
                        if top:
                            rec["log"] += [3, handle(nd_)]
                            rec["split"] = r_
                        return r_
                    BBm.np = NpP()
                    BBm._BFSubcluster.merge_subcluster, BBm._BFSubcluster.update = w_merge, w_update
                    BBm._BFNode.insert_bf_subcluster, BBm._split_node = w_insert, w_split
                    try:
                        ret = orig_insert(node, sc, est._merge_accept_fn, est.threshold)
                    finally:
                        BBm.np = real_np
                        BBm._BFSubcluster.merge_subcluster, BBm._BFSubcluster.update = orig_merge, orig_update
                        BBm._BFNode.insert_bf_subcluster, BBm._split_node = orig_insert, orig_split
                    idx = rec["idx"] if rec["idx"] is not None else 0
                    closest = None
                    if before[0]:
                        closest = next(o for o in keep if id(o) in hid and hid[id(o)] == before[0][idx])
                    child_tok = None
                    if closest is not None and rec["child"] is not None:
                        child_tok = rec["log"][1]
                    n1 = n2 = None
                    if rec["split"] is not None:
                        n1, n2 = rec["split"]
                    after = ([handle(x) for x in node._subclusters], [token(r_) for r_ in node._packed_centroids_buf])
                    sym = {
                        "_subclusters_at_closest_idx_packed_centroid": token(node._subclusters[idx].packed_centroid) if node._subclusters and idx < len(node._subclusters) else None,
                        "child_must_be_split": rec["child"],
                        "closest_idx": idx,
                        "closest_subcluster_child": child_tok,
                        "closest_subcluster_packed_centroid": token(closest.packed_centroid) if closest is not None else None,
                        "merge_was_successful": rec["merge"],
                        "new_subcluster1": handle(n1) if n1 is not None else None,
                        "new_subcluster1_packed_centroid": token(n1.packed_centroid) if n1 is not None else None,
                        "new_subcluster2": handle(n2) if n2 is not None else None,
                        "new_subcluster2_packed_centroid": token(n2.packed_centroid) if n2 is not None else None,
                        "sim_matrix": None,
                        "subcluster_packed_centroid": sc_tok,
                    }
                    args = [before[0], before[1], [], handle(sc), None, None] + [sym[k] for k in sorted(sym)]
                    case_ = "empty" if not before[0] else ("leaf-merge" if rec["merge"] else "leaf-append" if rec["merge"] is False
                                                         else "inner-split" if rec["child"] else "inner-update")
                    cnt["insert:" + case_] = cnt.get("insert:" + case_, 0) + 1
                    compare("_BFNode_insert_bf_subcluster", args, (bool(ret), after[0], after[1], rec["log"]))
            if "sklearn" in which:
                # the scikit-learn wrapper on small real data: fit / partial_fit / fit_predict, one or two calls on one estimator,
                # compute_labels on / off; base-class fit and get_assignments recorded in call order, their results as inputs
                import bblean.sklearn as SKm
                import bblean.bitbirch as BBm
                from bblean.fingerprints import pack_fingerprints as _pk
                base_fit = BBm.BitBirch.fit
                base_ga = BBm.BitBirch.get_assignments
                for _ in range(max(40, N // 3)):
                    nf = rng.choice([16, 24])
                    cl = rng.random() < 0.5
                    est = SKm.BitBirch(threshold=rng.choice([0.3, 0.6]), branching_factor=rng.choice([3, 50]), compute_labels=cl)
                    tok: dict = {}

                    def token(r_):
                        return tok.setdefault(bytes(np.asarray(r_, dtype=np.uint8).tobytes()), len(tok) + 1)

                    def fields():
                        lab = getattr(est, "labels_", None)
                        cen = getattr(est, "subcluster_centers_", None)
                        sl = getattr(est, "subcluster_labels_", None)
                        return (None if lab is None else np.asarray(lab, dtype=np.uint64),
                                None if cen is None else [token(r_) for r_ in cen],
                                None if sl is None else [int(v_) for v_ in sl],
                                getattr(est, "_n_features_out", None))
                    for call_i in range(rng.choice([1, 2, 2])):
                        meth = rng.choice(["fit", "partial_fit", "fit_predict", "fit_predict"])
                        rows = np.asarray([[rng.random() < 0.5 for _b in range(nf)] for _r in range(rng.randint(1, 12))], dtype=np.uint8)
                        X_ = _pk(rows)
                        if meth == "partial_fit" and rng.random() < 0.25:
                            X_ = None
                        before = fields()
                        log_: list = []
                        gas: list = []

                        def w_fit(self_, *a_, **k_):
                            log_.append(10)
                            return base_fit(self_, *a_, **k_)

                        def w_ga(self_, *a_, **k_):
                            log_.append(11)
                            r_ = base_ga(self_, *a_, **k_)
                            gas.append(np.asarray(r_, dtype=np.uint64).copy())
                            return r_
                        BBm.BitBirch.fit, BBm.BitBirch.get_assignments = w_fit, w_ga
                        try:
                            try:
                                ret = getattr(est, meth)(X_)
                            except ValueError:
                                ret = "ERR:ValueError"
                        finally:
                            BBm.BitBirch.fit, BBm.BitBirch.get_assignments = base_fit, base_ga
                        after = fields()
                        ga_fit = gas[0] if cl and gas else None
                        ga_own = (gas[-1] if (cl and len(gas) > 1) or (not cl and gas) else None)
                        cen_in = after[1] if after[1] is not None else []
                        common = [before[0], before[1], before[2], before[3], [], np.asarray([1], dtype=np.uint8) if X_ is not None else None, None, True, None, cen_in]
                        if meth == "fit":
                            args = common + [ga_fit, cl]
                        else:
                            args = common + [ga_fit, ga_own, cl]
                        if isinstance(ret, str):
                            rv = ("ERR",)
                        elif meth == "fit_predict":
                            rv = (np.asarray(ret, dtype=np.uint64),)
                        else:
                            rv = ("self",)
                        real = rv + after + (log_,)
                        m = d.cmd("GEN SkBitBirch_" + meth + " " + " ".join(pv(a_) for a_ in args))
                        want = " ".join(("err:ValueError" if isinstance(v_, str) and v_ == "ERR" else pv(v_)) for v_ in real)
                        res.evaluations += 1
                        cnt["SkBitBirch_" + meth] = cnt.get("SkBitBirch_" + meth, 0) + 1
                        if m != want and res.disagreement is None:
                            res.disagreement = {"what": f"generated SkBitBirch_{meth} differs from the Python method", "compute_labels": cl,
                                                "call": call_i, "model": m[:400], "impl": want[:400]}
                        # the oracle of the property: what fit_predict returns labels the data fitted so far
                        if meth == "fit_predict" and not isinstance(ret, str) and len(ret) != est.num_fitted_fps and res.disagreement is None:
                            res.disagreement = {"what": "fit_predict returned a vector of another length than the fitted data", "model": str(est.num_fitted_fps), "impl": str(len(ret))}
            if "monitor" in which:
                # the daemon's loop, run for real (real files) with a scripted process tree, clock and sleep; every iteration's
                # file effects, recorded at the module's own `open` / `os` / `time` names, against the generated loop body
                import builtins as _bi
                import shutil as _shutil
                import tempfile as _tmp
                import time as _time
                from pathlib import Path as _P
                base = _P(_tmp.mkdtemp(prefix="bbverif-mon-", dir=os.environ.get("VERIF_SCRATCH", "/var/tmp")))

                class _Stop(Exception):
                    pass
                try:
                    for run_i in range(max(12, N // 12)):
                        ddir = base / f"m{run_i}"
                        ddir.mkdir()
                        csv = ddir / "monitor-rss.csv"
                        n_it = rng.randint(1, 12)
                        unit = rng.choice([1, 4096, 2 ** 20, 2 ** 30, 123457])
                        hi = rng.choice([3, 10, 2 ** 10, 2 ** 24])
                        raws = [rng.choice([0, rng.randint(0, hi), rng.randint(0, hi) * unit]) for _ in range(n_it)]
                        if rng.random() < 0.3:
                            raws = sorted(raws)
                        clk0 = rng.uniform(0, 1e5)
                        clks = [clk0 + rng.uniform(0, 50) for _ in range(n_it)]
                        trace: list = []
                        iters: list = []
                        state = {"i": 0}

                        def tok(p_):
                            return "file" if _P(p_) == csv else str(p_)

                        class FProxy:
                            def __init__(self, f, p_):
                                self.f, self.p = f, p_

                            def __enter__(self):
                                self.f.__enter__()
                                return self

                            def __exit__(self, *a):
                                trace.append(("close", tok(self.p)))
                                return self.f.__exit__(*a)

                            def write(self, text):
                                parts = []
                                body = text[:-1] if text.endswith("\n") else text
                                for j, piece in enumerate(body.split(",")):
                                    if j:
                                        parts.append(",")
                                    try:
                                        parts.append(float(piece))
                                    except ValueError:
                                        parts.append(piece)
                                if text.endswith("\n"):
                                    parts.append("\n")
                                trace.append(("write", tok(self.p), len(parts), *parts))
                                return self.f.write(text)

                            def flush(self):
                                trace.append(("flush", tok(self.p)))
                                return self.f.flush()

                            def fileno(self):
                                return ("fileno", self)

                        def open_(p_, mode="r", **k):
                            trace.append(("open", tok(p_), mode))
                            return FProxy(_bi.open(p_, mode=mode, **k), p_)

                        class OsProxy:
                            def __getattr__(self, k):
                                return getattr(os, k)

                            @staticmethod
                            def fsync(h):
                                trace.append(("fsync", tok(h[1].p)))
                                return os.fsync(h[1].f.fileno())

                            @staticmethod
                            def replace(a_, b_):
                                trace.append(("os.replace", tok(a_), tok(b_)))
                                return os.replace(a_, b_)

                        class TimeProxy:
                            def __getattr__(self, k):
                                return getattr(_time, k)

                            @staticmethod
                            def perf_counter():
                                return clks[state["i"]]

                            @staticmethod
                            def sleep(x):
                                peak = (ddir / "max-rss.txt")
                                iters.append((list(trace), peak.read_text() if peak.exists() else None,
                                              sorted(q.name for q in ddir.iterdir())))
                                trace.clear()
                                state["i"] += 1
                                if state["i"] >= n_it:
                                    raise _Stop()

                        class Proc:
                            pid = 1

                            def memory_info(self):
                                class R:
                                    rss = raws[state["i"]]
                                return R()

                            def children(self, recursive=True):
                                return []

                        class PsProxy:
                            NoSuchProcess = Exception

                            @staticmethod
                            def Process(pid):
                                return Proc()
                        saved = {k: MEM.__dict__.get(k, None) for k in ("os", "time", "psutil", "open")}
                        MEM.os, MEM.time, MEM.psutil, MEM.open = OsProxy(), TimeProxy(), PsProxy(), open_
                        start = clk0 - rng.uniform(0, 10)
                        try:
                            try:
                                MEM.monitor_rss_process(csv, 0.01, start, 1)
                            except _Stop:
                                pass
                        finally:
                            for k, v in saved.items():
                                if v is None:
                                    del MEM.__dict__[k]
                                else:
                                    setattr(MEM, k, v)
                        mx = d.cmd("GEN monitor_rss_process_loop_init")
                        ok_init = mx == pv(0.0)
                        if not ok_init and res.disagreement is None:
                            res.disagreement = {"what": "generated initial maximum differs", "model": mx, "impl": pv(0.0)}
                        cur = 0.0
                        seen_peak = None
                        for i, (tr, peak_text, listing) in enumerate(iters):
                            if i == 0:
                                # the header written before the loop is not part of the loop body
                                k0 = next(j for j, t_ in enumerate(tr) if t_[0] == "close")
                                tr = tr[k0 + 1:]
                            new = raws[i] * MEM._BYTES_TO_GIB
                            if new > cur:
                                cur = new
                                seen_peak = cur
                            real = tuple(x for t_ in tr for x in t_) + (cur,)
                            args = [iters_prev_max(iters, raws, i, MEM._BYTES_TO_GIB), start, 0.01, MEM._BYTES_TO_GIB, str(ddir), clks[i], raws[i]]
                            compare("monitor_rss_process_loop", args, real)
                            # the files themselves: the peak file holds the running maximum in full, no temporary name is left
                            want = None if seen_peak is None else repr(seen_peak) + "\n"
                            if (peak_text != want or "max-rss.txt.tmp" in listing) and res.disagreement is None:
                                res.disagreement = {"what": "peak file after an iteration is not the complete running maximum",
                                                    "model": str(want), "impl": f"{peak_text!r} listing={listing}"}
                        cnt["monitor_runs"] = cnt.get("monitor_runs", 0) + 1
                        cnt["monitor_updates"] = cnt.get("monitor_updates", 0) + sum(1 for tr, _, _ in iters if any(t_[0] == "os.replace" for t_ in tr))
                finally:
                    _shutil.rmtree(base, ignore_errors=True)
            if "config" in which:
                import bblean as BBL
                crits = list(M.BUILTIN_MERGES)

                def rand_crit():
                    r = rng.random()
                    if r < 0.25:
                        return None
                    if r < 0.65:
                        return rng.choice(crits + ["no-such-criterion"])
                    k = rng.choice(["std", "nonadaptive", "nmax", "legacy", "plain"])
                    t = rng.choice([0.0, 0.05, 0.3])
                    if k == "std":
                        return M.get_merge_accept_fn(rng.choice(crits), t)
                    if k == "nonadaptive":
                        return M.ToleranceDiameterMerge(t, adaptive=False)
                    if k == "nmax":
                        return M.ToleranceRadiusMerge(t, n_max=10, decay=0.5)
                    if k == "legacy":
                        return M.ToleranceMerge(t)
                    return rng.choice([M.RadiusMerge, M.DiameterMerge])()

                def cfg_of(est):
                    return (est.threshold, est.branching_factor, est._merge_accept_fn)
                for _ in range(N):
                    thr0 = rng.choice([0.3, 0.65, 0.9])
                    bf0 = rng.choice([2, 50])
                    c0, t0 = rand_crit(), rng.choice([None, None, 0.0, 0.2])
                    proxy = NpProxy()
                    M.np = proxy
                    try:
                        try:
                            est = BBL.BitBirch(threshold=thr0, branching_factor=bf0, merge_criterion=c0, tolerance=t0)
                            real = (None,) + cfg_of(est)
                        except ValueError:
                            est, real = None, "ERR:ValueError"
                        mdl_args = [thr0, bf0, c0, t0, None]
                        if real == "ERR:ValueError":
                            # the half-built object is not observable: compare the status only
                            d.cmd("GENEXP tab=" + (";".join(f"{k}={v}" for k, v in proxy.calls.items()) or "-"))
                            m = d.cmd("GEN BitBirch_init " + " ".join(pv(a) for a in mdl_args)).split(" ")[0]
                            res.evaluations += 1
                            cnt["BitBirch_init"] = cnt.get("BitBirch_init", 0) + 1
                            if m != "err:ValueError" and res.disagreement is None:
                                res.disagreement = {"what": "generated BitBirch_init accepts what the constructor refuses",
                                                    "args": [pv(a) for a in mdl_args], "model": m, "impl": "err:ValueError"}
                            continue
                        compare("BitBirch_init", mdl_args, real, exp_tab=proxy.calls)
                        compare("BitBirch_tolerance", list(cfg_of(est)), est.tolerance)
                        compare("BitBirch_merge_criterion", list(cfg_of(est)), est.merge_criterion)
                        if rng.random() < 0.5:
                            # reset (with and without a fitted tree) leaves the configuration as it is
                            if rng.random() < 0.6:
                                est.fit(np.asarray([[1, 0, 1, 0, 1, 1, 0, 0], [0, 1, 1, 0, 0, 1, 0, 1]], dtype=np.uint8), input_is_packed=False)
                            cfg0 = cfg_of(est)
                            root_tok = None if est._root is None else 1
                            est.reset()
                            compare("BitBirch_reset", list(cfg0) + [root_tok], cfg_of(est))
                        for _ in range(rng.randint(1, 3)):
                            before = cfg_of(est)
                            # the object held before the call may be changed in place (set_merge(tolerance=...)): snapshot it
                            before_lit = [pv(v) for v in before]
                            c1, t1 = rand_crit(), rng.choice([None, None, 0.0, 0.41])
                            th1, b1 = rng.choice([None, None, 0.5]), rng.choice([None, None, 7])
                            proxy.calls.clear()
                            try:
                                est.set_merge(c1, tolerance=t1, threshold=th1, branching_factor=b1)
                                status = None
                            except ValueError:
                                status = "ERR"
                            after = cfg_of(est)
                            args = ["@" + x for x in before_lit] + [c1, t1, th1, b1, None]
                            if status == "ERR":
                                d.cmd("GENEXP tab=" + (";".join(f"{k}={v}" for k, v in proxy.calls.items()) or "-"))
                                m = d.cmd("GEN BitBirch_set_merge " + " ".join(a[1:] if isinstance(a, str) and a.startswith("@") else pv(a) for a in args))
                                impl = "err:ValueError " + " ".join(pv(v) for v in after)
                                res.evaluations += 1
                                cnt["BitBirch_set_merge"] = cnt.get("BitBirch_set_merge", 0) + 1
                                if m != impl and res.disagreement is None:
                                    res.disagreement = {"what": "generated BitBirch_set_merge differs (failing call)", "model": m[:300], "impl": impl[:300]}
                            else:
                                compare("BitBirch_set_merge", args, (None,) + after, exp_tab=proxy.calls)
                    finally:
                        M.np = np
            res.counters = cnt
            res.nontrivial = sum(cnt.values())
            res.traces = res.evaluations
        finally:
            d.close()
        return res
    run.__name__ = "suite_gen_" + "_".join(sorted(which))
    return run
