"""S-MON: the real `monitor_rss_process` update step and the real `get_peak_memory_gib`
are run as gated threads; the scheduler executes every interleaving of the writer's file
effects (open / flush / replace) with the reader's steps (exists / open / read) for a
sequence of memory samples, on real files, and compares the readers' results with the
model's for the same schedule."""
from __future__ import annotations

import builtins
import itertools
import os
import random
import shutil
import tempfile
import threading
from pathlib import Path

from core import Driver, show_nats
from checklib import SuiteResult

import bblean._memory as mem

GIB = 1024 ** 3


class Worker:
    """a thread that parks before each gated effect; `step()` lets it perform that effect and
    run to the next gate (or to completion)"""

    def __init__(self, fn):
        self.go = threading.Semaphore(0)
        self.parked = threading.Semaphore(0)
        self.finished = False
        self.pending = None
        self.result = None
        self.exc = None
        self.trace: list[str] = []

        def run():
            try:
                self.result = fn()
            except _Stop:
                pass
            except BaseException as e:  # noqa: BLE001
                self.exc = e
            self.finished = True
            self.pending = None
            self.parked.release()

        self.t = threading.Thread(target=run, daemon=True)

    def start(self):
        self.t.start()
        self.parked.acquire()

    def gate(self, label):
        self.pending = label
        self.trace.append(label)
        self.parked.release()
        self.go.acquire()

    def step(self):
        assert not self.finished
        self.go.release()
        self.parked.acquire()


class _Stop(Exception):
    pass


_tls = threading.local()


def _cur() -> Worker | None:
    return getattr(_tls, "worker", None)


class _FileProxy:
    def __init__(self, f, role, name):
        self._f, self._role, self._name = f, role, name

    def write(self, s):
        return self._f.write(s)

    def flush(self):
        w = _cur()
        if w is not None and self._role == "w":
            w.gate("flush:" + self._name)
        return self._f.flush()

    def read(self, *a):
        w = _cur()
        if w is not None and self._role == "r":
            w.gate("read:" + self._name)
        return self._f.read(*a)

    def fileno(self):
        return self._f.fileno()

    def __enter__(self):
        return self

    def __exit__(self, *a):
        w = _cur()
        if w is not None and self._role == "w":
            w.gate("close:" + self._name)   # buffered data not flushed yet reaches the file here
        return self._f.__exit__(*a)


def _gated_open(file, mode="r", *a, **kw):
    name = Path(file).name
    w = _cur()
    if w is not None and name.startswith("max-rss.txt"):
        role = "w" if "w" in mode else "r"
        w.gate(("open:" if role == "w" else "ropen:") + name)
        return _FileProxy(builtins.open(file, mode, *a, **kw), role, name)
    return builtins.open(file, mode, *a, **kw)


class _OsProxy:
    def __getattr__(self, k):
        return getattr(os, k)

    @staticmethod
    def replace(a, b):
        w = _cur()
        if w is not None:
            w.gate("replace:" + Path(a).name)
        return os.replace(a, b)

    @staticmethod
    def fsync(fd):
        return os.fsync(fd)


class _GatedDir(type(Path())):
    """out_dir whose children gate `exists()`"""

    def __truediv__(self, k):
        return _GatedPath(super().__truediv__(k))


class _GatedPath(type(Path())):
    def exists(self, *a, **kw):
        w = _cur()
        if w is not None:
            w.gate("exists:" + self.name)
        return super().exists(*a, **kw)


class _FakeProc:
    def __init__(self, samples):
        self.samples = list(samples)
        self.i = 0

    def memory_info(self):
        if self.i >= len(self.samples):
            raise _Stop()
        v = self.samples[self.i]
        self.i += 1

        class MI:
            rss = v * GIB
        return MI

    def children(self, recursive=True):
        return []


OLD_PEAK = 7.25   # what an earlier run in the same directory left in max-rss.txt
OLD_TMP = 4096.5   # ... or, killed between write and rename, in max-rss.txt.tmp


def run_schedule(samples, sched_roles, workdir: Path, pre: str = ""):
    """sched_roles: list of 'W' / 'R'.  Returns (reader results, model schedule string, writer effect trace, proto).
    `pre`: leftovers of an earlier run present when the monitor starts ("peak", "tmp", "peak+tmp")"""
    for p in workdir.glob("*"):
        p.unlink()
    if "peak" in pre:
        (workdir / "max-rss.txt").write_text(f"{OLD_PEAK}\n")
    if "tmp" in pre:
        (workdir / "max-rss.txt.tmp").write_text(f"{OLD_TMP}\n")
    real_open, real_os, real_time, real_psutil = getattr(mem, "open", None), mem.os, mem.time, mem.psutil

    class TimeProxy:
        def __getattr__(self, k):
            return getattr(real_time, k)

        @staticmethod
        def sleep(s):
            return None

    class PsProxy:
        def __getattr__(self, k):
            return getattr(real_psutil, k)

        NoSuchProcess = real_psutil.NoSuchProcess

        def Process(self, pid=None):
            return proc

    proc = _FakeProc(samples)
    # file-system calls made through pathlib on the peak file (unlink / rename / replace / touch / write_text) are
    # scheduling points of the writer as well
    real_path_ops = {k: getattr(Path, k) for k in ("unlink", "rename", "replace", "write_text")}

    def _gate_path(opname):
        real = real_path_ops[opname]

        def op(self_, *a, **kw):
            w = _cur()
            if w is not None and self_.name.startswith("max-rss.txt"):
                w.gate(f"{opname}:{self_.name}")
            return real(self_, *a, **kw)
        return op
    for k_ in real_path_ops:
        setattr(Path, k_, _gate_path(k_))
    mem.open = _gated_open
    mem.os = _OsProxy()
    mem.time = TimeProxy()
    mem.psutil = PsProxy()
    results = []
    model_sched = []
    try:
        def writer_fn():
            _tls.worker = writer
            mem.monitor_rss_process(workdir / "monitor-rss.csv", 0.0, 0.0, os.getpid())

        def make_reader():
            def reader_fn():
                _tls.worker = reader_box[0]
                return mem.get_peak_memory_gib(_GatedDir(workdir))
            return Worker(reader_fn)

        writer = Worker(writer_fn)
        writer.start()
        reader_box = [None]
        reader = None
        for role in sched_roles:
            if role == "W":
                if writer.finished:
                    model_sched.append("T")
                    continue
                label = writer.pending
                writer.step()
                model_sched.append("TT" if label.startswith("flush:") else ("" if label.startswith("close:") else "T"))
            else:
                if reader is None:
                    reader = make_reader()
                    reader_box[0] = reader
                    reader.start()
                label = reader.pending
                if not reader.finished:
                    reader.step()
                model_sched.append("FF" if label and label.startswith("read:") else "F")
                if reader.finished:
                    if reader.exc is not None:
                        results.append("error:" + type(reader.exc).__name__)
                    elif reader.result is None:
                        results.append("none")
                    else:
                        results.append(repr(float(reader.result)))
                    reader = None
        trace = list(writer.trace)
        # let parked threads die
        for w in (writer, reader):
            while w is not None and not w.finished:
                w.step()
    finally:
        if real_open is None:
            del mem.open
        else:
            mem.open = real_open
        mem.os, mem.time, mem.psutil = real_os, real_time, real_psutil
        for k_, v_ in real_path_ops.items():
            setattr(Path, k_, v_)
    proto = "truncate" if any(t == "open:max-rss.txt" for t in trace) else "rename"
    return results, "".join(model_sched), trace, proto


def canon_model(out: str, samples) -> list[str]:
    vals = out.split(" ")[0]
    res = []
    for x in (vals.split(",") if vals else []):
        if x in ("none", "error", "wrong"):
            res.append(x)
        else:
            res.append(repr(float(int(x))))
    return res


def suite_monitor(tier: str, seed: int, mult: int) -> SuiteResult:
    rng = random.Random(seed + 41)
    res = SuiteResult("S-MON")
    d = Driver()
    work = Path(tempfile.mkdtemp(prefix="bbverif-mon-", dir=os.environ.get("VERIF_SCRATCH", "/var/tmp")))
    cnt = {"schedules": 0, "reader_runs": 0, "reader_none": 0, "reader_value": 0, "reader_inside_update": 0, "exhaustive_configs": 0}
    seen = set()
    try:
        configs = []
        # exhaustive: one and two updates, all merges of the writer gates with up to two reader runs
        for samples in ([2], [2, 5], [3, 1, 4]):
            n_w = 4 * len([s for i, s in enumerate(samples) if s > max([0] + samples[:i])]) + 1
            for n_r in ((3, 6) if tier == "thorough" else (3, 5)):
                configs.append((samples, n_w, n_r))
        scheds = []
        for samples, n_w, n_r in configs:
            cnt["exhaustive_configs"] += 1
            allc = list(itertools.combinations(range(n_w + n_r), n_r))
            if tier == "quick" and len(allc) > 250 * mult:
                allc = rng.sample(allc, 250 * mult)
            for pos in allc:
                roles = ["R" if i in pos else "W" for i in range(n_w + n_r)]
                scheds.append((samples, roles))
        for _ in range((100 if tier == "quick" else 1500) * mult):
            k = rng.randint(1, 5)
            samples = [rng.randint(1, 9) for _ in range(k)]
            roles = [rng.choice("WWR") for _ in range(rng.randint(4, 30))]
            scheds.append((samples, roles))
        for si, (samples, roles) in enumerate(scheds):
            # every fourth schedule starts in a directory an earlier run has used (its peak file and / or a temporary
            # file it was killed over are still there); the model has no such state: oracle only
            pre = ["peak", "tmp", "peak+tmp"][(si // 4) % 3] if si % 4 == 3 else ""
            if pre and roles and roles[0] != "R":
                roles = ["R"] * 3 + list(roles)      # a reader right after the monitor has started
            results, msched, trace, proto = run_schedule(samples, roles, work, pre)
            cnt["pre_" + (pre or "empty")] = cnt.get("pre_" + (pre or "empty"), 0) + 1
            if pre:
                mout, mres = "(no model run: pre-populated directory)", None
            else:
                mout = d.cmd(f"MON proto={proto} samples={show_nats(',', samples)} sched={msched}")
                mres = canon_model(mout, samples)
            res.evaluations += 1
            res.traces += 1
            cnt["schedules"] += 1
            cnt["reader_runs"] += len(results)
            cnt["reader_none"] += results.count("none")
            cnt["reader_value"] += sum(1 for r in results if r[0].isdigit())
            key = (tuple(samples), "".join(roles))
            if key not in seen and any(r[0].isdigit() for r in results):
                seen.add(key)
                res.nontrivial += 1
            impl_c = ["error" if r.startswith("error:") else r for r in results]
            if mres is not None and impl_c != mres and res.disagreement is None:
                res.disagreement = {"what": "reader results", "samples": samples, "roles": "".join(roles), "proto": proto,
                                    "model_sched": msched, "model": mout, "impl": results, "writer_trace": trace}
            # oracle: never an error, only complete values that were written so far, never decreasing
            maxima = []
            m = 0
            for s in samples:
                if s > m:
                    m = s
                    maxima.append(float(s))
            last = None
            for r in results:
                if r.startswith("error:"):
                    res.failures.append({"signature": f"C20:reader-raised-{r[6:]}-while-the-monitor-was-updating",
                                         "what": f"get_peak_memory_gib raised {r[6:]} under schedule {''.join(roles)} ({proto} protocol)",
                                         "case": {"samples": samples, "roles": "".join(roles), "writer_trace": trace, "directory_before": pre or "empty"}})
                    break
                if r != "none":
                    v = float(r)
                    if "peak" in pre and v == OLD_PEAK and last is None:
                        continue      # the complete value the earlier run left: a correctly parsed number of that run
                    if v not in maxima:
                        res.failures.append({"signature": "C20:reader-returned-a-value-never-written",
                                             "what": f"{v} not among {maxima}", "case": {"samples": samples, "roles": "".join(roles)}})
                        break
                    if last is not None and v < last:
                        res.failures.append({"signature": "C20:recorded-peak-decreased", "what": f"{last} then {v}",
                                             "case": {"samples": samples, "roles": "".join(roles)}})
                        break
                    last = v
            if len(res.samples) < 3 and results:
                res.samples.append({"samples": samples, "schedule": "".join(roles), "writer_effects": trace[:8], "reader_results": results})
            if res.failures:
                break
    finally:
        d.close()
        shutil.rmtree(work, ignore_errors=True)
    res.counters = cnt
    res.failures = res.failures[:2]
    return res
