"""S-SK: the scikit-learn wrappers (packed and unpacked, compute_labels on/off): labels_,
fit_predict, predict, transform (as exact rationals) and dump_assignments vs the model."""
from __future__ import annotations

import csv
import os
import random
import shutil
import tempfile
from pathlib import Path

from core import Driver, np, exp_table_line, show_rat, show_nats, row_hex
from ops import gen_rows, gen_cfg, new_line, rows_arg
from checklib import SuiteResult

from bblean.sklearn import BitBirch as SkBitBirch, UnpackedBitBirch

SCRATCH = os.environ.get("VERIF_SCRATCH", "/var/tmp")


def suite_sk(tier: str, seed: int, mult: int) -> SuiteResult:
    rng = random.Random(seed + 97)
    res = SuiteResult("S-SK")
    d = Driver()
    work = Path(tempfile.mkdtemp(prefix="bbverif-sk-", dir=SCRATCH))
    cnt = {"fits": 0, "packed": 0, "unpacked": 0, "compute_labels_off": 0, "queries": 0, "ties_in_sizes": 0, "multi_cluster": 0}
    try:
        for k in range((120 if tier == "quick" else 1500) * mult):
            F = rng.choice(list(range(2, 25)) + [64, 65])
            rows = gen_rows(rng, F, rng.randint(2, 50))
            cfg = gen_cfg(rng)
            packed = rng.random() < 0.5
            compute = rng.random() < 0.7
            d.cmd(exp_table_line(len(rows) + 2))
            d.cmd(new_line(cfg))
            d.cmd(f"FIT F={F} labels=- rows={rows_arg(F, rows)}")
            queries = [r for r in gen_rows(rng, F, rng.randint(1, 6)) if any(r)] or [[1] * F]
            mv = d.cmd(f"SK F={F} rows={rows_arg(F, queries)}")
            kw = {}
            if cfg["crit"] is not None:
                kw["merge_criterion"] = cfg["crit"]
            if cfg["tol"] is not None:
                kw["tolerance"] = cfg["tol"]
            X = np.asarray(rows, dtype=np.uint8).reshape(len(rows), F)
            Q = np.asarray(queries, dtype=np.uint8).reshape(len(queries), F)
            if packed:
                est = SkBitBirch(threshold=cfg["thr"], branching_factor=cfg["bf"], compute_labels=compute, **kw)
                Xi, Qi, fkw = np.packbits(X, axis=1), np.packbits(Q, axis=1), {"n_features": F}
            else:
                est = UnpackedBitBirch(threshold=cfg["thr"], branching_factor=cfg["bf"], compute_labels=compute, **kw)
                Xi, Qi, fkw = X, Q, {}
            use_fit_predict = rng.random() < 0.5
            try:
                if use_fit_predict:
                    labels = est.fit_predict(Xi, **fkw)
                else:
                    est.fit(Xi, **fkw)
                    labels = est.labels_ if compute else est.get_assignments()
                centers = est.subcluster_centers_
                pred = est.predict(Qi, **fkw)
                tr = est.transform(Qi, **fkw)
                iv = ("labels=[" + show_nats(".", labels) + "] centers=[" + ",".join(row_hex(c) for c in centers) + "] predict=["
                      + show_nats(".", pred) + "] transform=[" + ";".join(",".join(show_rat(float(x)) for x in row) for row in tr) + "]")
            except Exception as e:  # noqa: BLE001
                iv = f"err:{type(e).__name__}:{e}"[:300]
            res.evaluations += 1
            cnt["fits"] += 1
            cnt["packed" if packed else "unpacked"] += 1
            cnt["compute_labels_off"] += not compute
            cnt["queries"] += len(queries)
            if mv != iv and res.disagreement is None:
                res.disagreement = {"what": "sklearn wrapper", "cfg": cfg, "F": F, "rows": rows, "queries": queries, "packed": packed,
                                    "model": mv[:2000], "impl": iv[:2000]}
            if not iv.startswith("err"):
                cl = est.get_cluster_mol_ids(sort=True)
                sizes = [len(c) for c in cl]
                cnt["ties_in_sizes"] += len(set(sizes)) < len(sizes)
                if len(cl) > 1:
                    cnt["multi_cluster"] += 1
                    res.nontrivial += 1
                # oracle: labels are the 1-based ranks in the size-sorted cluster list
                if sizes != sorted(sizes, reverse=True):
                    res.failures.append({"signature": "C18:cluster-list-not-sorted-largest-first", "what": str(sizes[:10]),
                                         "case": {"cfg": cfg, "F": F, "rows": rows}})
                want = np.zeros(len(rows), dtype=np.int64)
                for i, c in enumerate(cl, 1):
                    want[c] = i
                if not np.array_equal(np.asarray(labels, dtype=np.int64), want) or (want == 0).any():
                    res.failures.append({"signature": "C18:labels-are-not-the-ranks-of-the-size-sorted-clusters",
                                         "what": f"labels {list(map(int, labels))[:12]} vs {want.tolist()[:12]}",
                                         "case": {"cfg": cfg, "F": F, "rows": rows, "packed": packed, "compute_labels": compute}})
                # predict = a nearest centroid; transform = Jaccard distances
                C = np.asarray(centers, dtype=bool)
                for qi, q in enumerate(Q.astype(bool)):
                    dist = [(np.logical_xor(q, c).sum() / max(np.logical_or(q, c).sum(), 1)) for c in C]
                    if [float(x) for x in tr[qi]] != [float(x) for x in dist]:
                        res.failures.append({"signature": "C18:transform-is-not-the-jaccard-distance-to-each-centroid",
                                             "what": f"query {qi}", "case": {"cfg": cfg, "F": F, "rows": rows, "queries": queries}})
                        break
                    if dist[int(pred[qi]) - 1] != min(dist):
                        res.failures.append({"signature": "C18:predict-is-not-a-nearest-centroid", "what": f"query {qi}",
                                             "case": {"cfg": cfg, "F": F, "rows": rows, "queries": queries}})
                        break
                # dump_assignments
                if k % 10 == 0:
                    p = work / "a.csv"
                    est.dump_assignments(p)
                    got = [int(r["assignments"]) for r in csv.DictReader(open(p))]
                    if got != want.tolist():
                        res.failures.append({"signature": "C18:dump_assignments-differs-from-labels", "what": str(got[:10]),
                                             "case": {"cfg": cfg, "F": F, "rows": rows}})
            if len(res.samples) < 2:
                res.samples.append({"cfg": cfg, "F": F, "n_rows": len(rows), "packed": packed, "compute_labels": compute,
                                    "fit_predict": use_fit_predict, "n_queries": len(queries)})
            if res.failures:
                break
    finally:
        d.close()
        shutil.rmtree(work, ignore_errors=True)
    res.counters = cnt
    res.failures = res.failures[:1]
    return res
