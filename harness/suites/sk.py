"""S-SK: the scikit-learn wrappers (packed and unpacked, compute_labels on/off): labels_,
fit_predict, predict, transform (as exact rationals) and dump_assignments vs the model."""
from __future__ import annotations

import csv
import os
import random
import shutil
import tempfile
from pathlib import Path

from core import Driver, np, exp_table_line, show_rat, show_nats, row_hex
from ops import gen_rows, gen_cfg, new_line, rows_arg
from checklib import SuiteResult

from bblean.sklearn import BitBirch as SkBitBirch, UnpackedBitBirch

SCRATCH = os.environ.get("VERIF_SCRATCH", "/var/tmp")


def suite_sk(tier: str, seed: int, mult: int) -> SuiteResult:
    rng = random.Random(seed + 97)
    res = SuiteResult("S-SK")
    d = Driver()
    work = Path(tempfile.mkdtemp(prefix="bbverif-sk-", dir=SCRATCH))
    cnt = {"fits": 0, "packed": 0, "unpacked": 0, "compute_labels_off": 0, "queries": 0, "ties_in_sizes": 0, "multi_cluster": 0, "two_calls": 0}
    try:
        for k in range((120 if tier == "quick" else 1500) * mult):
            F = rng.choice(list(range(2, 25)) + [64, 65])
            rows = gen_rows(rng, F, rng.randint(2, 50))
            if k % 12 == 5:
                # wide and dense: rows and centroids share several hundred on-bits
                F = rng.choice([600, 1024])
                protos_ = [[1 if rng.random() < 0.7 else 0 for _ in range(F)] for _ in range(2)]
                rows = [[b ^ (1 if rng.random() < 0.03 else 0) for b in rng.choice(protos_)] for _ in range(rng.randint(6, 14))]
            if k % 5 == 0:
                # a few all-zero fingerprints (they form a cluster of their own, seldom the largest)
                for _ in range(rng.randint(1, 3)):
                    rows.insert(rng.randrange(len(rows) + 1), [0] * F)
            cfg = gen_cfg(rng)
            packed = rng.random() < 0.5
            compute = rng.random() < 0.7
            d.cmd(exp_table_line(len(rows) + 2))
            d.cmd(new_line(cfg))
            # one call, or two calls on the same estimator (fit / partial_fit in any combination): the second call adds rows
            cut = rng.randint(1, len(rows) - 1) if rng.random() < 0.4 else None
            calls = [rng.choice(["fit", "partial_fit", "fit_predict"]), rng.choice(["fit", "partial_fit", "partial_fit"])] if cut else None
            if cut:
                d.cmd(f"FIT F={F} labels=- rows={rows_arg(F, rows[:cut])}")
                d.cmd(f"FIT F={F} labels=- rows={rows_arg(F, rows[cut:])}")
            else:
                d.cmd(f"FIT F={F} labels=- rows={rows_arg(F, rows)}")
            queries = [r for r in gen_rows(rng, F, rng.randint(1, 6)) if any(r)] or [[1] * F]
            if F >= 600:
                queries = [list(r) for r in rows[:3]] + queries[:2]      # queries close to the centroids
            if any(not any(r) for r in rows) or rng.random() < 0.2:
                # an empty query row: its Jaccard distance to an empty centroid is 0, to any other 1
                queries.insert(rng.randrange(len(queries) + 1), [0] * F)
                cnt["empty_queries"] = cnt.get("empty_queries", 0) + 1
            mv = d.cmd(f"SK F={F} rows={rows_arg(F, queries)}")
            kw = {}
            if cfg["crit"] is not None:
                kw["merge_criterion"] = cfg["crit"]
            if cfg["tol"] is not None:
                kw["tolerance"] = cfg["tol"]
            X = np.asarray(rows, dtype=np.uint8).reshape(len(rows), F)
            Q = np.asarray(queries, dtype=np.uint8).reshape(len(queries), F)
            if packed:
                est = SkBitBirch(threshold=cfg["thr"], branching_factor=cfg["bf"], compute_labels=compute, **kw)
                Xi, Qi, fkw = np.packbits(X, axis=1), np.packbits(Q, axis=1), {"n_features": F}
            else:
                est = UnpackedBitBirch(threshold=cfg["thr"], branching_factor=cfg["bf"], compute_labels=compute, **kw)
                Xi, Qi, fkw = X, Q, {}
            use_fit_predict = rng.random() < 0.5
            try:
                if cut:
                    cnt["two_calls"] += 1
                    getattr(est, calls[0])(Xi[:cut], **fkw)
                    if calls[0] == "fit" or compute:
                        _ = est.transform(Qi, **fkw) if hasattr(est, "subcluster_centers_") else None  # use the first state
                    if use_fit_predict:
                        labels = est.fit_predict(Xi[cut:], **fkw)
                    else:
                        getattr(est, calls[1])(Xi[cut:], **fkw)
                        labels = est.labels_ if compute else est.get_assignments()
                elif use_fit_predict:
                    labels = est.fit_predict(Xi, **fkw)
                else:
                    est.fit(Xi, **fkw)
                    labels = est.labels_ if compute else est.get_assignments()
                centers = est.subcluster_centers_
                pred = est.predict(Qi, **fkw)
                tr = est.transform(Qi, **fkw)
                iv = ("labels=[" + show_nats(".", labels) + "] centers=[" + ",".join(row_hex(c) for c in centers) + "] predict=["
                      + show_nats(".", pred) + "] transform=[" + ";".join(",".join(show_rat(float(x)) for x in row) for row in tr) + "]")
            except Exception as e:  # noqa: BLE001
                iv = f"err:{type(e).__name__}:{e}"[:300]
            res.evaluations += 1
            cnt["fits"] += 1
            cnt["packed" if packed else "unpacked"] += 1
            cnt["compute_labels_off"] += not compute
            cnt["queries"] += len(queries)
            if mv != iv and res.disagreement is None:
                res.disagreement = {"what": "sklearn wrapper", "cfg": cfg, "F": F, "rows": rows, "queries": queries, "packed": packed,
                                    "model": mv[:2000], "impl": iv[:2000]}
            if not iv.startswith("err"):
                cl = est.get_cluster_mol_ids(sort=True)
                sizes = [len(c) for c in cl]
                cnt["ties_in_sizes"] += len(set(sizes)) < len(sizes)
                if len(cl) > 1:
                    cnt["multi_cluster"] += 1
                    res.nontrivial += 1
                # oracle: labels are the 1-based ranks in the size-sorted cluster list
                if sizes != sorted(sizes, reverse=True):
                    res.failures.append({"signature": "C18:cluster-list-not-sorted-largest-first", "what": str(sizes[:10]),
                                         "case": {"cfg": cfg, "F": F, "rows": rows}})
                want = np.zeros(len(rows), dtype=np.int64)
                for i, c in enumerate(cl, 1):
                    want[c] = i
                if not np.array_equal(np.asarray(labels, dtype=np.int64), want) or (want == 0).any():
                    res.failures.append({"signature": "C18:labels-are-not-the-ranks-of-the-size-sorted-clusters",
                                         "what": f"labels {list(map(int, labels))[:12]} vs {want.tolist()[:12]}",
                                         "case": {"cfg": cfg, "F": F, "rows": rows, "packed": packed, "compute_labels": compute}})
                # the centroids used by transform / predict are those of the CURRENT clusters, in rank order
                wantC = []
                for c in cl:
                    ls = X[c].astype(np.int64).sum(axis=0)
                    wantC.append(((2 * ls >= len(c)) if len(c) > 1 else (ls != 0)).astype(np.uint8).tolist())
                if np.asarray(centers).astype(np.uint8).tolist() != wantC:
                    res.failures.append({"signature": "C18:transform/predict-centroids-are-not-those-of-the-current-clusters",
                                         "what": f"{len(centers)} centroids for {len(cl)} clusters" if len(centers) != len(cl) else "centroid rows differ",
                                         "case": {"cfg": cfg, "F": F, "rows": rows, "packed": packed, "calls": calls, "cut": cut}})
                # predict = a nearest centroid; transform = Jaccard distances
                C = np.asarray(centers, dtype=bool)
                for qi, q in enumerate(Q.astype(bool) if not res.failures else []):
                    dist = [(np.logical_xor(q, c).sum() / max(np.logical_or(q, c).sum(), 1)) for c in C]
                    if [float(x) for x in tr[qi]] != [float(x) for x in dist]:
                        res.failures.append({"signature": "C18:transform-is-not-the-jaccard-distance-to-each-centroid",
                                             "what": f"query {qi}", "case": {"cfg": cfg, "F": F, "rows": rows, "queries": queries}})
                        break
                    if dist[int(pred[qi]) - 1] != min(dist):
                        res.failures.append({"signature": "C18:predict-is-not-a-nearest-centroid", "what": f"query {qi}",
                                             "case": {"cfg": cfg, "F": F, "rows": rows, "queries": queries}})
                        break
                # dump_assignments
                if k % 10 == 0:
                    p = work / "a.csv"
                    est.dump_assignments(p)
                    got = [int(r["assignments"]) for r in csv.DictReader(open(p))]
                    if got != want.tolist():
                        res.failures.append({"signature": "C18:dump_assignments-differs-from-labels", "what": str(got[:10]),
                                             "case": {"cfg": cfg, "F": F, "rows": rows}})
            if len(res.samples) < 2:
                res.samples.append({"cfg": cfg, "F": F, "n_rows": len(rows), "packed": packed, "compute_labels": compute,
                                    "fit_predict": use_fit_predict, "n_queries": len(queries), "calls": calls})
            if res.failures:
                break
    finally:
        d.close()
        shutil.rmtree(work, ignore_errors=True)
    res.counters = cnt
    res.failures = res.failures[:1]
    return res


def suite_assign(tier: str, seed: int, mult: int) -> SuiteResult:
    """get_assignments on states whose ids are NOT 0..n-1 once each (explicit reinsert labels with a
    duplicate, a gap, an out-of-range id; a re-insertion without reset): refused, never a vector with
    unlabeled entries; valid permutations of the labels: the ranks."""
    from core import impl_out
    from bblean.bitbirch import BitBirch
    rng = random.Random(seed + 101)
    res = SuiteResult("S-ASSIGN")
    d = Driver()
    cnt = {"cases": 0, "permuted_labels": 0, "duplicate_id": 0, "out_of_range_id": 0, "reinsertion_without_reset": 0, "refused": 0, "returned": 0}
    try:
        for k in range((150 if tier == "quick" else 3000) * mult):
            F = rng.choice(list(range(2, 25)) + [64])
            rows = gen_rows(rng, F, rng.randint(2, 40))
            n = len(rows)
            cfg = gen_cfg(rng)
            kind = rng.choice(["perm", "dup", "dup", "oob", "refit"])
            labels = list(range(n))
            rng.shuffle(labels)
            if kind == "dup":
                i, j = rng.sample(range(n), 2)
                labels[j] = labels[i]
                cnt["duplicate_id"] += 1
            elif kind == "oob":
                labels[rng.randrange(n)] = n + rng.randint(0, 3)
                cnt["out_of_range_id"] += 1
            elif kind == "perm":
                cnt["permuted_labels"] += 1
            d.cmd(exp_table_line(2 * n + 2))
            d.cmd(new_line(cfg))
            kw = {}
            if cfg["crit"] is not None:
                kw["merge_criterion"] = cfg["crit"]
            if cfg["tol"] is not None:
                kw["tolerance"] = cfg["tol"]
            t = BitBirch(threshold=cfg["thr"], branching_factor=cfg["bf"], **kw)
            X = np.asarray(rows, dtype=np.uint8).reshape(n, F)
            if kind == "refit":
                cnt["reinsertion_without_reset"] += 1
                d.cmd(f"FIT F={F} labels=- rows={rows_arg(F, rows)}")
                d.cmd(f"FIT F={F} labels={show_nats(',', labels)} rows={rows_arg(F, rows)}")
                t.fit(X, input_is_packed=False)
                t.fit(X, input_is_packed=False, reinsert_indices=labels)
            else:
                d.cmd(f"FIT F={F} labels={show_nats(',', labels)} rows={rows_arg(F, rows)}")
                t.fit(X, input_is_packed=False, reinsert_indices=labels)
            mo = d.cmd("OUT")
            io = impl_out(t)
            res.evaluations += 1
            cnt["cases"] += 1
            pick = lambda s_: s_.split("assign=[")[1].split("]")[0] if "assign=[" in s_ else s_  # noqa: E731
            if (pick(mo) != pick(io) or mo.split(" ")[0] != io.split(" ")[0]) and res.disagreement is None:
                res.disagreement = {"what": "get_assignments with explicit labels", "kind": kind, "cfg": cfg, "F": F, "labels": labels,
                                    "model": mo[:1500], "impl": io[:1500]}
            case = {"cfg": cfg, "F": F, "rows": rows, "labels": labels, "kind": kind}
            try:
                a = t.get_assignments()
                cnt["returned"] += 1
                cl = t.get_cluster_mol_ids(sort=True)
                if (np.asarray(a) == 0).any():
                    res.failures.append({"signature": "C18:assignment-vector-returned-with-unlabeled-entries",
                                         "what": f"ids {np.flatnonzero(np.asarray(a) == 0).tolist()[:8]} carry no label ({kind})", "case": case})
                elif any(int(a[i]) != r for r, c in enumerate(cl, 1) for i in c):
                    res.failures.append({"signature": "C18:labels-are-not-the-ranks-of-the-size-sorted-clusters", "what": kind, "case": case})
                elif kind != "perm":
                    res.failures.append({"signature": "C18:assignments-returned-for-ids-that-are-not-0..n-1-once-each", "what": kind, "case": case})
            except (ValueError, IndexError):
                cnt["refused"] += 1
                if kind == "perm":
                    res.failures.append({"signature": "C18:assignments-refused-for-a-valid-labelling", "what": kind, "case": case})
            if kind == "perm":
                res.nontrivial += 1
            if len(res.samples) < 2:
                res.samples.append({"kind": kind, "n": n, "labels": labels[:10], "assign": pick(io)[:60]})
            if res.failures:
                break
    finally:
        d.close()
    res.counters = cnt
    res.failures = res.failures[:1]
    return res
