"""Direct oracles: each evaluates one property statement on the real estimator using its
observables (the `observe_at` list of the property) — support for the failing-input search,
never the deciding method."""
from __future__ import annotations

from core import np

from bblean.similarity import jt_isim_from_sum, jt_isim_radius_compl_from_sum


def _clusters(t, sort=True):
    return t.get_cluster_mol_ids(sort=sort) if t.is_init else []


# ------------------------------------------------------------------------------- C01
class C01:
    """partition of 0..n-1, count, assignments; a failed fit keeps exactly the prefix"""

    def before(self, s, op, k):
        self.n_before = s.tree.num_fitted_fps
        self.leaves_only = bool(s.tree._only_has_leaves)

    def __call__(self, s, op, k, ians):
        t = s.tree
        # with explicit labels (duplicates, arbitrary numbers): the reported ids are exactly the labels inserted, with multiplicity
        flat_any = sorted(i for c in _clusters(t) for i in c)
        if flat_any != sorted(s.labels):
            return {"signature": "C01:reported-ids-are-not-the-labels-inserted",
                    "what": f"reported {flat_any[:20]}... vs inserted {sorted(s.labels)[:20]}...", "detail": {"n": t.num_fitted_fps}}
        if t.num_fitted_fps != len(s.labels):
            return {"signature": "C01:count-differs-from-the-number-of-inserted-rows", "what": f"{t.num_fitted_fps} vs {len(s.labels)}"}
        if not s.labels_contiguous:
            return None
        n = t.num_fitted_fps
        flat = sorted(i for c in _clusters(t) for i in c)
        if flat != list(range(s.base, s.base + n)):
            return {"signature": "C01:clusters-do-not-partition-the-fitted-labels",
                    "what": f"flattened clusters {flat[:20]}... vs range({n})", "detail": {"n": n, "flat": flat[:200]}}
        flat2 = sorted(i for c in _clusters(t, sort=False) for i in c)
        if flat2 != flat:
            return {"signature": "C01:unsorted-report-differs", "what": "sort=False report has different labels"}
        if t.is_init and n > 0 and s.base == 0:
            try:
                a = t.get_assignments(check_valid=True)
                if len(a) != n or (a == 0).any():
                    return {"signature": "C01:assignments-incomplete", "what": "get_assignments returned unlabeled entries"}
            except Exception as e:  # noqa: BLE001
                return {"signature": "C01:assignments-refused", "what": f"get_assignments raised {type(e).__name__} on a fitted tree"}
        if op["op"] == "fit" and ians != "ok" and op.get("labels") is None:
            F = op["F"]
            good = 0
            for r in op["rows"]:
                if len(r) != F:
                    break
                good += 1
            if good < len(op["rows"]) and self.n_before + (0 if self.leaves_only else good) != n:
                # the fit failed on a malformed row: exactly the rows before it must be held
                return {"signature": "C01:failed-fit-does-not-keep-exactly-the-prefix",
                        "what": f"fit failed at row {good}; before={self.n_before} after={n}"}
        return None


# ------------------------------------------------------------------------------- C02
class C02:
    """stored count / sums / centroid / width exact for the member list"""

    def __call__(self, s, op, k, ians):
        t = s.tree
        if not t.is_init or not s.labels_contiguous or not s.data:
            return None
        X = np.asarray(s.data, dtype=np.uint64).reshape(len(s.data), s.F)
        for srt in (True, False):
            bfs = t._get_leaf_bfs(sort=srt)
            cm = t.get_centroids_mol_ids(sort=srt, packed=True)
            cu = t.get_centroids_mol_ids(sort=srt, packed=False)
            if len(cm["centroids"]) != len(cm["mol_ids"]) or len(bfs) != len(cm["mol_ids"]):
                return {"signature": "C02:centroid-list-misaligned", "what": "centroid and member lists differ in length"}
            for j, (bf, ids) in enumerate(zip(bfs, cm["mol_ids"])):
                if any(not (0 <= i - s.base < len(s.data)) for i in ids):
                    return None  # C01's business
                rows = X[[i - s.base for i in ids]]
                n = len(ids)
                if int(bf.n_samples) != n:
                    return {"signature": "C02:count-differs-from-member-list", "what": f"n_samples={bf.n_samples} len(ids)={n}"}
                ls = rows.sum(axis=0)
                if not np.array_equal(np.asarray(bf.linear_sum, dtype=np.uint64), ls):
                    return {"signature": "C02:sums-differ-from-members", "what": f"cluster {j}: stored sums differ from column sums of members"}
                maj = (2 * ls >= n).astype(np.uint8) if n > 1 else (ls != 0).astype(np.uint8)
                if not np.array_equal(np.asarray(cu["centroids"][j], dtype=np.uint8), maj):
                    return {"signature": "C02:centroid-not-majority", "what": f"cluster {j}: unpacked centroid is not the majority vote"}
                if not np.array_equal(np.asarray(cm["centroids"][j]), np.packbits(maj)):
                    return {"signature": "C02:packed-centroid-not-majority", "what": f"cluster {j}: packed centroid is not the packed majority vote"}
                if bf.dtype_name != np.min_scalar_type(n).name:
                    return {"signature": "C02:width-not-narrowest", "what": f"cluster {j}: dtype {bf.dtype_name} for n={n}"}
        return None


# ------------------------------------------------------------------------------- C03
DIAM = {"diameter", "tolerance-diameter", "tolerance-legacy"}
RAD = {"radius", "tolerance-radius"}


class C03:
    """every cluster with >= 2 members meets the bound of a (criterion, threshold) pair that
    was in force at some insertion of the history since the last reset.  The pairs in force are
    the ones the USER put in force (constructor arguments, set_merge / setter arguments,
    recluster's extra_threshold), tracked from the operations — not read back from the object."""

    def __init__(self):
        self.configs: set = set()
        self.req = None   # (criterion name, threshold) requested so far

    def before(self, s, op, k):
        if self.req is None:
            c = s.cfg["crit"]
            self.req = ((c[1] if isinstance(c, (tuple, list)) else c) or "diameter", float(s.cfg["thr"]))

    def __call__(self, s, op, k, ians):
        t = s.tree
        kind = op["op"]
        crit, thr = self.req
        if kind in ("fit", "refine"):
            self.configs.add((crit, thr))
        elif kind == "recluster":
            for _ in range(op["it"]):
                thr = thr + op["extra"]
                self.configs.add((crit, thr))
            if ians == "ok":
                # the advanced threshold stays in force (early stopping may end before all iterations: the tree tells how far)
                self.req = (crit, float(t.threshold))
                self.configs.add(self.req)
        elif kind == "setmerge" and ians == "ok":
            c = op["crit"]
            if c is not None:
                crit = c[1] if isinstance(c, (tuple, list)) else c
            if op["thr"] is not None:
                thr = float(op["thr"])
            self.req = (crit, thr)
        elif kind == "setthr" and ians == "ok":
            self.req = (crit, float(op["thr"]))
        elif kind == "reset":
            self.configs = set()
        if not t.is_init or not s.labels_contiguous or not s.data:
            return None
        X = np.asarray(s.data, dtype=np.uint64).reshape(len(s.data), s.F)
        for ids in t.get_cluster_mol_ids():
            n = len(ids)
            if n < 2 or any(not (0 <= i - s.base < len(s.data)) for i in ids):
                continue
            ls = X[[i - s.base for i in ids]].sum(axis=0)
            isim = float(jt_isim_from_sum(ls, n))
            rc = float(jt_isim_radius_compl_from_sum(ls, n))
            ok = False
            for c2, th2 in self.configs:
                if c2 in DIAM and isim >= th2:
                    ok = True
                elif c2 in RAD and rc >= th2:
                    ok = True
            if not ok:
                return {"signature": "C03:cluster-below-every-threshold-in-force",
                        "what": f"cluster of {n} members: isim={isim} radius-compl={rc}, configs in force {sorted(self.configs)}"}
        return None


# ------------------------------------------------------------------------------- C08
class C08:
    """well-formed, height-balanced summary tree (read-only walk of private structure)"""

    def __call__(self, s, op, k, ians):
        t = s.tree
        root = t._root
        if root is None:
            return None
        depths = set()
        leaves_in_tree = []
        bfs_in_force = None

        def walk(node, depth):
            k_ = len(node._subclusters)
            cap = node.branching_factor
            if not (1 <= k_ <= cap) and not (node is root and k_ == 0):
                return f"node with {k_} entries, capacity {cap}"
            if cap < 2:
                return f"node capacity {cap}"
            for j, bf in enumerate(node._subclusters):
                if not np.array_equal(node._packed_centroids_buf[j], bf.packed_centroid):
                    return "search cache row differs from the entry's centroid"
                n = int(bf.n_samples)
                if bf.dtype_name != np.min_scalar_type(n).name:
                    return f"entry with n={n} stored as {bf.dtype_name}"
                if n != len(bf.mol_indices):
                    return "entry count differs from its member list"
                # "its entries' centroids": the centroid of an entry is the majority vote (ties set) of ITS sums and count
                if n >= 1:
                    ls_ = np.asarray(bf.linear_sum, dtype=np.uint64)
                    want_c = np.packbits(((2 * ls_ >= n) if n > 1 else (ls_ != 0)).astype(np.uint8))
                    if not np.array_equal(np.asarray(bf.packed_centroid), want_c):
                        return f"entry centroid (and its search-cache row) is not the majority vote of the entry's sums, n={n}"
            kinds = {bf.child is None for bf in node._subclusters}
            if len(kinds) > 1:
                return "node mixes leaf entries and inner entries"
            if not node._subclusters or node._subclusters[0].child is None:
                depths.add(depth)
                leaves_in_tree.append(node)
                return None
            for bf in node._subclusters:
                ch = bf.child
                tot_n = sum(int(x.n_samples) for x in ch._subclusters)
                if tot_n != int(bf.n_samples):
                    return "inner entry count differs from the total of its node"
                tot = np.zeros(len(bf.linear_sum), dtype=np.uint64)
                for x in ch._subclusters:
                    tot += np.asarray(x.linear_sum, dtype=np.uint64)
                if not np.array_equal(tot, np.asarray(bf.linear_sum, dtype=np.uint64)):
                    return "inner entry sums differ from the totals of its node"
                ids = sorted(i for x in ch._subclusters for i in x.mol_indices)
                if ids != sorted(bf.mol_indices):
                    return "inner entry labels differ from the labels of its node"
                r = walk(ch, depth + 1)
                if r:
                    return r
            return None

        r = walk(root, 0)
        if r is None and len(depths) > 1:
            r = f"leaves at depths {sorted(depths)}"
        if r is None:
            chain = []
            leaf = t._dummy_leaf._next_leaf
            while leaf is not None and len(chain) < 10**6:
                chain.append(id(leaf))
                leaf = leaf._next_leaf
            if sorted(chain) != sorted(id(x) for x in leaves_in_tree) or len(set(chain)) != len(chain):
                r = "leaf sequence is not exactly the leaves reachable from the root, once each"
        if r:
            return {"signature": "C08:" + r.split(",")[0].split(" with ")[0], "what": r}
        return None


# ------------------------------------------------------------------------------- C09
class C09:
    """re-insertion only coarsens"""

    def before(self, s, op, k):
        # report order computed here, not taken from the library: leaf order, then stable by size
        uns = [list(c) for c in _clusters(s.tree, sort=False)]
        self.prev = sorted(uns, key=len, reverse=True)

    def __call__(self, s, op, k, ians):
        if op["op"] not in ("recluster", "refine") or ians != "ok":
            return None
        if len(set(s.labels)) != len(s.labels):
            return None   # duplicate explicit labels: "the cluster of id i" is not defined
        t = s.tree
        new = _clusters(t)
        where = {}
        for j, c in enumerate(new):
            for i in c:
                where[i] = j
        keep = self.prev
        if op["op"] == "refine":
            keep = self.prev[max(op["n"], 0):] if op["n"] > 0 else self.prev
        for c in self.prev:
            if any(i not in where for i in c):
                return {"signature": f"C09:{op['op']}-dropped-members-of-a-cluster",
                        "what": f"members {[i for i in c if i not in where][:10]} are in no cluster after {op['op']}"}
        for c in keep:
            if len({where.get(i, -1) for i in c}) > 1:
                return {"signature": f"C09:{op['op']}-separated-a-cluster-that-was-not-to-be-split",
                        "what": f"members {c[:10]} were together before {op['op']} and are now in different clusters"}
        return None


# ------------------------------------------------------------------------------- C17
class C17:
    """merge configuration: constructor / set_merge symmetry, frame, atomicity, reset"""

    PROBE = None

    def before(self, s, op, k):
        t = s.tree
        self.snap = (t.merge_criterion, t.tolerance, float(t.threshold), int(t.branching_factor), repr(t))

    def __call__(self, s, op, k, ians):
        from bblean.bitbirch import BitBirch
        from bblean._merges import get_merge_accept_fn
        t = s.tree
        now = (t.merge_criterion, t.tolerance, float(t.threshold), int(t.branching_factor), repr(t))
        kind = op["op"]
        if kind == "reset":
            if now != self.snap:
                return {"signature": "C17:reset-changed-the-merge-configuration", "what": f"{self.snap} -> {now}"}
            return None
        if kind in ("fit", "refine", "delint"):
            if now != self.snap:
                return {"signature": f"C17:{kind}-changed-the-merge-configuration", "what": f"{self.snap} -> {now}"}
            return None
        if kind != "setmerge":
            return None
        c, tol, thr, bf = op["crit"], op["tol"], op["thr"], op["bf"]
        if ians != "ok":
            if now != self.snap:
                return {"signature": "C17:failing-set_merge-changed-the-estimator", "what": f"{self.snap} -> {now} after {ians}"}
        else:
            if thr is None and now[2] != self.snap[2] or thr is not None and now[2] != float(thr):
                return {"signature": "C17:set_merge-threshold-frame", "what": f"threshold {self.snap[2]} -> {now[2]} for argument {thr}"}
            if bf is None and now[3] != self.snap[3] or bf is not None and now[3] != bf:
                return {"signature": "C17:set_merge-branching-factor-frame", "what": f"bf {self.snap[3]} -> {now[3]} for argument {bf}"}
            if c is None and now[0] != self.snap[0]:
                return {"signature": "C17:set_merge-changed-criterion-unasked", "what": f"{self.snap[0]} -> {now[0]}"}
            if c is not None and now[0] != (c[1] if isinstance(c, (tuple, list)) else c):
                return {"signature": "C17:set_merge-criterion-not-set", "what": f"asked {c}, got {now[0]}"}
            if tol is not None and now[1] is not None and not isinstance(c, (tuple, list)) and now[1] != tol:
                return {"signature": "C17:set_merge-tolerance-not-set", "what": f"asked {tol}, got {now[1]}"}
            if tol is None and self.snap[1] is not None and now[1] is not None and not isinstance(c, (tuple, list)) \
                    and now[1] != self.snap[1]:
                return {"signature": "C17:set_merge-reset-a-previously-chosen-tolerance",
                        "what": f"tolerance {self.snap[1]} -> {now[1]} although none was passed"}
        # constructor / set_merge symmetry on the same (criterion, tolerance) arguments
        if c is not None:
            try:
                arg = get_merge_accept_fn(c[1], c[2]) if isinstance(c, (tuple, list)) else c
                kw = {} if tol is None else {"tolerance": tol}
                fresh = BitBirch(threshold=now[2], branching_factor=now[3], merge_criterion=arg, **kw)
                ctor_ok = True
            except ValueError:
                ctor_ok = False
                fresh = None
            if ctor_ok != (ians == "ok"):
                return {"signature": "C17:constructor-and-set_merge-disagree-on-acceptance",
                        "what": f"criterion={c} tolerance={tol}: constructor {'accepts' if ctor_ok else 'rejects'}, set_merge {ians}"}
            if ctor_ok and (tol is not None or now[1] is None or isinstance(c, (tuple, list))):
                if (fresh.merge_criterion, fresh.tolerance) != (now[0], now[1]):
                    return {"signature": "C17:constructor-and-set_merge-yield-different-merge-functions",
                            "what": f"ctor {(fresh.merge_criterion, fresh.tolerance)} vs set_merge {(now[0], now[1])}"}
        return None
