#!/usr/bin/env python3
"""py2lean — translate the scalar / decision core of bblean from Python to Lean 4.

The translation is purely syntactic.  Every Python expression becomes an application of an
operation of the value algebra `BB.PV` (lean/BBModel/PyNum.lean) to dynamically typed
values, statement lists become `let` chains, `if` statements become `PV.ite` with the rest
of the function duplicated into both branches, `return e` is the value, `raise X(...)` is
`PV.err "X"`.  No typing, no simplification, no knowledge of what the code is for: all
NumPy / Python semantics live in PyNum.lean, all knowledge of the intended behaviour in
the hand-written model and in the theorems `BBProofs/GenEq.lean` that relate the two.

What is translated is listed in SPEC below (file -> functions / classes).  Anything in
those bodies outside the supported subset makes the translator fail with a message naming
the construct and its source line: the tie between the code and the theorems is then
broken (reported by the proof gate), never silently skipped.

usage: py2lean.py [--repo /repo] [--out FILE]      (stdout when --out is missing)
"""
import argparse
import ast
import sys
from pathlib import Path

# --------------------------------------------------------------------------------------
# what to translate, in dependency order
SPEC = [
    ("bblean/utils.py", {"functions": ["min_safe_uint"]}),
    ("bblean/_py_similarity.py", {"functions": ["centroid_from_sum", "jt_isim_from_sum"]}),
    ("bblean/similarity.py", {"functions": [
        "jt_isim_radius_compl_from_sum", "jt_isim_radius_from_sum", "jt_isim_diameter_from_sum"]}),
    ("bblean/_merges.py", {
        "classes": ["RadiusMerge", "DiameterMerge", "ToleranceDiameterMerge", "ToleranceRadiusMerge",
                    "NeverMerge", "ToleranceMerge"],
        "methods": ["__init__", "__call__"],
        "dispatch": True,
        "functions": ["get_merge_accept_fn"]}),
    ("bblean/_memory.py", {
        "classes": ["_ArrayMemPagesManager"],
        "methods": ["from_bb_input", "should_release_curr_page", "release_curr_page_and_update_addr"],
        "dataclass": True}),
    ("bblean/fingerprints.py", {"functions": ["pack_fingerprints"]}),
    ("bblean/bitbirch.py", {
        "classes": ["_BFSubcluster"],
        "methods": ["__init__", "n_samples", "linear_sum", "replace_n_samples_and_linear_sum",
                    "add_to_n_samples_and_linear_sum", "update", "merge_subcluster"],
        "slots": True, "partial_init": True}),
    # the node's entry list and its centroid cache, kept aligned: sub-clusters are handles (identities), their
    # `packed_centroid` an input; the rows of the cache are centroid tokens
    ("bblean/bitbirch.py", {
        "classes": ["_BFNode"],
        "methods": ["branching_factor", "packed_centroids", "append_subcluster", "update_split_subclusters", "insert_bf_subcluster"],
        "fields": ["_subclusters", "_packed_centroids_buf"],
        "handles": ["_BFSubcluster"],
        # calls of methods of other objects (sub-clusters, child nodes) are appended to a log carried like a field:
        # code of the method, receiver, handle arguments; their results are inputs named after the assigned variable
        "log_field": "calls_", "handle_lists": ["_subclusters"]}),
    ("bblean/bitbirch.py", {
        "classes": ["BitBirch"],
        "methods": ["__init__", "tolerance", "merge_criterion", "set_merge", "reset"],
        # attributes outside the configuration that `reset` reads; what it assigns outside the followed fields is dropped
        "self_inputs": ["_root"],
        # the configuration part of the estimator: only these attributes are followed; `__init__` is translated up to the
        # first statement outside the supported subset, and the rest is checked not to assign them
        "fields": ["threshold", "branching_factor", "_merge_accept_fn"],
        "partial_init": True}),
    # the scikit-learn wrapper: when `labels_` is (re)computed.  Calls of untranslated methods of the object itself are logged
    # (super().fit = 10, get_assignments = 11) and their results are inputs; `compute_labels` is an input
    ("bblean/sklearn.py", {
        "classes": ["BitBirch"], "alias": {"BitBirch": "SkBitBirch"},
        "methods": ["fit", "partial_fit", "fit_predict"],
        "fields": ["labels_", "subcluster_centers_", "subcluster_labels_", "_n_features_out"],
        "log_field": "calls_", "self_inputs": ["compute_labels"],
        "self_calls": {"get_assignments": 11}, "super_calls": {"fit": 10}}),
    ("bblean/cli.py", {"functions": ["_validate_output_dir"]}),
    # how `bb fps-from-smiles` sizes its batches and pads the part numbers (a function nested in the command)
    ("bblean/cli.py", {"nested_functions": [("_fps_from_smiles", "parse_num_per_batch")]}),
    # labels and global index ranges of the input files (a `for` loop with a running index; the row count of a file is an input)
    ("bblean/multiround.py", {"functions": ["_get_files_range_tuples"]}),
    # publication of a result file: written under a temporary name, then renamed
    ("bblean/multiround.py", {"functions": ["_pickle_dump_atomic"]}),
    # the body of the `while True:` loop of the monitor daemon, as a function of the running maximum: its file effects and
    # the new maximum (`total_rss()`, a closure over psutil, is an input)
    # the reader of the peak file: existence test, open, read, parse (the test and the content are inputs)
    ("bblean/_memory.py", {"functions": ["get_peak_memory_gib"]}),
    ("bblean/_memory.py", {"loop_bodies": [("monitor_rss_process", ["max_rss_gib", "file", "start_time", "interval_s"], ["max_rss_gib"])]}),
]
# a parameter annotated with this class is a merge-function object (class name :: attributes); calling it dispatches on the
# class name to the translated `__call__` of that class (generated function `<base>_call`)
DISPATCH_BASE = "MergeAcceptFunction"

# calls that are effects of a procedure: recorded, in order, in the returned list
EFFECTS = {"_madvise_dontneed", "shutil.rmtree", "os.replace"}
# calls whose value is an input of the translated function (clock, samples)
OPAQUE_CALLS = {"time.perf_counter": "time_perf_counter"}
# methods of an opaque parameter whose call is an effect (recorded as "<param>.<method>")
EFFECT_METHODS = {"mkdir"}
# functions of the loop element whose value is an input: the list of their values over the sequence is a parameter `<name>_of`
LOOP_EXTERNALS = {"_get_fps_file_num"}
# methods of handles / child nodes whose calls are logged (code in the log), and external functions whose value is an input
HANDLE_METHODS = {"merge_subcluster": 1, "insert_bf_subcluster": 2, "update": 4}
LOGGED_EXTERNALS = {"_split_node": 3}
EXTERNAL_ASSIGN = {"_jt_sim_arr_vec_packed", "np.argmax", "np.stack"}
# decorators that wrap a method without changing what it computes (parameter validation of scikit-learn)
TRANSPARENT_DECORATORS = {"_fit_context"}
# statements that are dropped (diagnostics only)
DROPPED_CALLS = {"warnings.warn", "time.sleep"}
# module-level constants that become parameters
MODULE_SYMBOLS = {"mmap.PAGESIZE": "mmap_PAGESIZE"}
# module-level variables that become parameters when read
GLOBAL_SYMBOLS = {"_global_merge_accept", "_BYTES_TO_GIB"}
NP_WIDTH = {"uint8": ".u8", "uint16": ".u16", "uint32": ".u32", "uint64": ".u64"}
LEAN_RESERVED = {"at", "from", "to", "in", "fun", "end", "open", "show", "have", "then", "else",
                 "if", "let", "do", "match", "with", "def", "Type", "instance", "class", "where",
                 "new", "old"}


class Unsupported(Exception):
    pass


class _Close(ast.stmt):
    """synthetic statement: the end of a `with open(...)` block"""
    def __init__(self, path):
        super().__init__()
        self.path = path


def src_of(node):
    return ast.unparse(node)


def ident(name):
    name = name.replace(".", "_")
    if name in LEAN_RESERVED or not (name[0].isalpha() or name[0] == "_"):
        return "v_" + name
    return name


def flat(node):
    """dotted text of an attribute / subscript chain, or None"""
    if isinstance(node, ast.Name):
        return node.id
    if isinstance(node, ast.Attribute):
        b = flat(node.value)
        return None if b is None else b + "." + node.attr
    if isinstance(node, ast.Subscript) and isinstance(node.slice, ast.Constant) \
            and isinstance(node.slice.value, int):
        b = flat(node.value)
        return None if b is None else b + "." + str(node.slice.value)
    return None


def root_name(node):
    while isinstance(node, (ast.Attribute, ast.Subscript)):
        node = node.value
    return node.id if isinstance(node, ast.Name) else None


class FnInfo:
    def __init__(self, lean_name, params, defaults, kind, extra):
        self.lean_name = lean_name      # name in namespace BBGen
        self.params = params            # python parameter names, in order (after self/cls)
        self.defaults = defaults        # name -> ast node of the default
        self.kind = kind                # "V" value, "L" list
        self.extra = extra              # extra (symbol) parameters: calling it from generated code is refused
        self.n_ret = 0                  # state-changing methods: number of returned values before the fields
        self.symbols = []               # names of the symbol parameters, in signature order
        self.handles = set()            # parameters that are object handles (their attributes are symbols `<param>_<attr>`)


class Translator:
    def __init__(self):
        self.table = []      # (lean name, arity, kind) of every generated function, for `dispatch`
        self.consts = []     # generated constants (lists of values), for `dispatch`
        self.dispatch_classes = []   # subclasses of DISPATCH_BASE with a translated __call__
        self.dispatch_attrs = set()  # attribute names of those classes (instance attributes and class-level constants)
        self.fns = {}        # python name -> FnInfo (module-level functions)
        self.classes = {}    # class name -> dict(bases, init_owner, attrs, fields, methods)
        self.out = []

    # ---------------------------------------------------------------- expressions
    def width(self, node):
        t = flat(node)
        if t and t.startswith("np.") and t[3:] in NP_WIDTH:
            return NP_WIDTH[t[3:]]
        raise Unsupported(f"dtype {src_of(node)} (line {node.lineno})")

    def const(self, v, node):
        if v is True:
            return "(PV.bool true)"
        if v is False:
            return "(PV.bool false)"
        if v is None:
            return "PV.pynone"
        if isinstance(v, int):
            return f"(PV.int {v})" if v >= 0 else f"(PV.int ({v}))"
        if isinstance(v, float):
            n, d = v.as_integer_ratio()
            return f"(PV.flt (some (({n} : Rat) / {d})))"
        if isinstance(v, str):
            return "(PV.str " + '"' + v.replace("\\", "\\\\").replace('"', '\\"').replace("\n", "\\n") + '")'
        raise Unsupported(f"constant {v!r} (line {node.lineno})")

    def expr(self, e, cx):
        """cx: dict(params=set, selfattrs=dict attr->lean, symbols=set (collected), locals=set)"""
        if isinstance(e, ast.Constant):
            return self.const(e.value, e)
        if isinstance(e, ast.Name):
            if e.id in cx["locals"] or e.id in cx["params"]:
                return ident(e.id)
            if e.id in GLOBAL_SYMBOLS:
                cx["symbols"].add(ident(e.id))
                return ident(e.id)
            raise Unsupported(f"free name {e.id} (line {e.lineno})")
        if isinstance(e, ast.UnaryOp):
            if isinstance(e.op, ast.USub):
                if isinstance(e.operand, ast.Constant) and isinstance(e.operand.value, (int, float)) \
                        and not isinstance(e.operand.value, bool):
                    return self.const(-e.operand.value, e)
                return f"(PV.neg {self.expr(e.operand, cx)})"
            if isinstance(e.op, ast.Not):
                return f"(PV.not {self.expr(e.operand, cx)})"
            raise Unsupported(f"unary operator {src_of(e)} (line {e.lineno})")
        if isinstance(e, ast.BinOp) and isinstance(e.op, ast.Add) and isinstance(e.right, ast.Constant) \
                and isinstance(e.right.value, str):
            return f"(PV.strCat {self.expr(e.left, cx)} {self.expr(e.right, cx)})"
        if isinstance(e, ast.BinOp) and isinstance(e.op, ast.Div) and isinstance(e.right, ast.Constant) \
                and isinstance(e.right.value, str):
            return f"(PV.pathJoin {self.expr(e.left, cx)} {self.expr(e.right, cx)})"
        if isinstance(e, ast.BinOp):
            ops = {ast.Add: "add", ast.Sub: "sub", ast.Mult: "mul", ast.Div: "truediv", ast.Mod: "mod"}
            for k, v in ops.items():
                if isinstance(e.op, k):
                    return f"(PV.{v} {self.expr(e.left, cx)} {self.expr(e.right, cx)})"
            raise Unsupported(f"binary operator in {src_of(e)} (line {e.lineno})")
        if isinstance(e, ast.BoolOp):
            op = "or" if isinstance(e.op, ast.Or) else "and"
            acc = self.expr(e.values[-1], cx)
            for v in reversed(e.values[:-1]):
                acc = f"(PV.{op} {self.expr(v, cx)} {acc})"
            return acc
        if isinstance(e, ast.Compare):
            if len(e.ops) != 1:
                raise Unsupported(f"comparison chain {src_of(e)} (line {e.lineno})")
            op, r = e.ops[0], e.comparators[0]
            if isinstance(op, (ast.Is, ast.IsNot)):
                if not (isinstance(r, ast.Constant) and r.value is None):
                    raise Unsupported(f"`is` with something other than None (line {e.lineno})")
                s = f"(PV.isNone {self.expr(e.left, cx)})"
                return s if isinstance(op, ast.Is) else f"(PV.not {s})"
            ops = {ast.Lt: "lt", ast.LtE: "le", ast.Gt: "gt", ast.GtE: "ge", ast.Eq: "eq", ast.NotEq: "ne"}
            for k, v in ops.items():
                if isinstance(op, k):
                    return f"(PV.{v} {self.expr(e.left, cx)} {self.expr(r, cx)})"
            raise Unsupported(f"comparison {src_of(e)} (line {e.lineno})")
        if isinstance(e, ast.Attribute):
            t = flat(e)
            if t in MODULE_SYMBOLS:
                cx["symbols"].add(MODULE_SYMBOLS[t])
                return MODULE_SYMBOLS[t]
            if t == "np.nan":
                return "PV.nan"
            if t and t.startswith("self.") and t.count(".") == 1:
                if e.attr in cx["selfattrs"]:
                    return cx["selfattrs"][e.attr]
                cls = cx.get("cls")
                if cls and e.attr in self.classes[cls].get("props", {}):
                    flds = self.classes[cls]["fields"]
                    return "(" + " ".join([self.classes[cls]["props"][e.attr], "expf"] + [cx["selfattrs"][f] for f in flds]) + ")"
                if cls and e.attr in self.classes[cls].get("self_inputs", []):
                    sname = ident("self_" + e.attr)
                    cx["symbols"].add(sname)
                    return sname
                raise Unsupported(f"unknown attribute {t} (line {e.lineno})")
            if isinstance(e.value, ast.Name) and e.value.id in cx.get("objparams", {}):
                ocls = cx["objparams"][e.value.id]
                flds = self.classes[ocls]["fields"]
                if e.attr in flds:
                    return ident(f"{e.value.id}_{e.attr}")
                if e.attr in self.classes[ocls].get("props", {}):
                    return "(" + " ".join([self.classes[ocls]["props"][e.attr], "expf"] + [ident(f"{e.value.id}_{f}") for f in flds]) + ")"
                raise Unsupported(f"attribute {src_of(e)} of an object parameter (line {e.lineno})")
            if isinstance(e.value, ast.Name) and e.value.id in cx.get("handles", set()):
                sname = ident(f"{e.value.id}_{e.attr}")
                cx["symbols"].add(sname)
                return sname
            # attribute of an element of a handle list: self._subclusters[i].attr -> an input named after the index variable
            cls_ = cx.get("cls")
            if cls_ and isinstance(e.value, ast.Subscript) and flat(e.value.value) and flat(e.value.value).startswith("self.") \
                    and e.value.value.attr in self.classes[cls_].get("handle_lists", []) and isinstance(e.value.slice, ast.Name):
                sname = ident(f"{e.value.value.attr}_at_{e.value.slice.id}_{e.attr}")
                cx["symbols"].add(sname)
                return sname
            if e.attr == "hasobject":
                return f"(PV.hasobject {self.expr(e.value, cx)})"
            if isinstance(e.value, (ast.Name, ast.Attribute)) and e.attr in self.dispatch_attrs \
                    and not (isinstance(e.value, ast.Name) and e.value.id in cx["opaque"]):
                return f'({DISPATCH_BASE}_getattr {self.expr(e.value, cx)} "{e.attr}")'
            r = root_name(e)
            if t and r in cx["opaque"]:
                s = ident(t)
                cx["symbols"].add(s)
                return s
            raise Unsupported(f"attribute {src_of(e)} (line {e.lineno})")
        # X.shape[0]: the number of rows
        if isinstance(e, ast.Subscript) and isinstance(e.value, ast.Attribute) and e.value.attr == "shape" \
                and isinstance(e.slice, ast.Constant) and e.slice.value == 0:
            return f"(PV.len {self.expr(e.value.value, cx)})"
        # self.<field>[i] for an index expression
        if isinstance(e, ast.Subscript) and not isinstance(e.slice, (ast.Slice, ast.Tuple)) and flat(e.value) \
                and flat(e.value).startswith("self.") and flat(e.value).count(".") == 1 and e.value.attr in cx["selfattrs"] \
                and src_of(e.slice) != "-1":
            return f"(PV.getAt {cx['selfattrs'][e.value.attr]} {self.expr(e.slice, cx)})"
        # rows[:k, :] of a two-dimensional buffer held as the list of its rows
        if isinstance(e, ast.Subscript) and isinstance(e.slice, ast.Tuple) and len(e.slice.elts) == 2 \
                and all(isinstance(x, ast.Slice) and x.lower is None and x.step is None for x in e.slice.elts) \
                and e.slice.elts[0].upper is not None and e.slice.elts[1].upper is None:
            return f"(PV.takeN {self.expr(e.value, cx)} {self.expr(e.slice.elts[0].upper, cx)})"
        if isinstance(e, ast.Subscript) and isinstance(e.slice, ast.Slice) and e.slice.lower is None and e.slice.step is None \
                and e.slice.upper is not None and src_of(e.slice.upper) == "-1":
            return f"(PV.sliceInit {self.expr(e.value, cx)})"
        if isinstance(e, ast.Subscript) and not isinstance(e.slice, ast.Slice) and src_of(e.slice) == "-1" \
                and not (root_name(e) in cx["opaque"]):
            return f"(PV.indexLast {self.expr(e.value, cx)})"
        if isinstance(e, ast.Subscript):
            t = flat(e)
            r = root_name(e)
            if t and r in cx["opaque"]:
                s = ident(t)
                cx["symbols"].add(s)
                return s
            raise Unsupported(f"subscript {src_of(e)} (line {e.lineno})")
        if isinstance(e, ast.Call):
            return self.call(e, cx)
        if isinstance(e, ast.IfExp):
            return f"(PV.ite {self.expr(e.test, cx)} {self.expr(e.body, cx)} {self.expr(e.orelse, cx)})"
        raise Unsupported(f"expression {src_of(e)} (line {e.lineno})")

    def bind_args(self, info, call, cx):
        """positional list of translated arguments of a call to a translated function"""
        got = {}
        if len(call.args) > len(info.params):
            raise Unsupported(f"too many arguments in {src_of(call)} (line {call.lineno})")
        for p, a in zip(info.params, call.args):
            got[p] = self.expr(a, cx)
        for k in call.keywords:
            if k.arg not in info.params or k.arg in got:
                raise Unsupported(f"keyword {k.arg} in {src_of(call)} (line {call.lineno})")
            got[k.arg] = self.expr(k.value, cx)
        res = []
        for p in info.params:
            if p in got:
                res.append(got[p])
            elif p in info.defaults:
                d = info.defaults[p]
                if not isinstance(d, ast.Constant):
                    raise Unsupported(f"non-constant default of {p} (line {call.lineno})")
                res.append(self.const(d.value, d))
            else:
                raise Unsupported(f"missing argument {p} in {src_of(call)} (line {call.lineno})")
        return res

    def kw(self, call, name):
        for k in call.keywords:
            if k.arg == name:
                return k.value
        return None

    def call(self, e, cx):
        f = e.func
        t = flat(f)
        # translated module-level function
        if isinstance(f, ast.Name) and f.id in self.fns:
            info = self.fns[f.id]
            if info.extra:
                raise Unsupported(f"call of {f.id}, which has symbolic parameters (line {e.lineno})")
            if info.kind != "V":
                raise Unsupported(f"call of list-valued {f.id} inside an expression (line {e.lineno})")
            return "(" + " ".join([info.lean_name, "expf"] + self.bind_args(info, e, cx)) + ")"
        if isinstance(f, ast.Name) and f.id in cx.get("listparams", set()):
            if e.keywords:
                raise Unsupported(f"keywords in object call {src_of(e)} (line {e.lineno})")
            return "(" + " ".join([f"{DISPATCH_BASE}_call", "expf", ident(f.id)] + [self.expr(a, cx) for a in e.args]) + ")"
        if isinstance(f, ast.Name) and f.id == "isinstance" and len(e.args) == 2 and flat(e.args[1]) == DISPATCH_BASE:
            return f"({DISPATCH_BASE}_isinstance {self.expr(e.args[0], cx)})"
        if isinstance(f, ast.Name) and f.id == "hasattr" and len(e.args) == 2 and isinstance(e.args[1], ast.Constant) \
                and isinstance(e.args[1].value, str):
            return f'({DISPATCH_BASE}_hasattr {self.expr(e.args[0], cx)} "{e.args[1].value}")'
        if isinstance(f, ast.Name) and f.id in self.classes and f.id in self.dispatch_classes:
            c = self.classes[f.id]
            owner = c["init_owner"]
            if owner is None:
                if e.args or e.keywords:
                    raise Unsupported(f"arguments to {f.id}() which has no __init__ (line {e.lineno})")
                return f'(PV.mkObj "{f.id}" [])'
            info = self.classes[owner]["init_info"]
            return f'(PV.mkObj "{f.id}" (' + " ".join([info.lean_name, "expf"] + self.bind_args(info, e, cx)) + "))"
        if isinstance(f, ast.Attribute) and f.attr == "item" and len(e.args) == 1 and not e.keywords and src_of(e.args[0]) == "-1":
            return f"(PV.itemLast {self.expr(f.value, cx)})"
        if isinstance(f, ast.Name) and f.id == "max" and len(e.args) == 2 and not e.keywords:
            return f"(PV.max2 {self.expr(e.args[0], cx)} {self.expr(e.args[1], cx)})"
        if isinstance(f, ast.Name) and f.id == "len" and len(e.args) == 1 and isinstance(e.args[0], ast.Call) \
                and isinstance(e.args[0].func, ast.Name) and e.args[0].func.id == "str" and len(e.args[0].args) == 1:
            return f"(PV.lenStr {self.expr(e.args[0].args[0], cx)})"
        if isinstance(f, ast.Name) and f.id == "len" and len(e.args) == 1 and not e.keywords:
            return f"(PV.len {self.expr(e.args[0], cx)})"
        if isinstance(f, ast.Name) and f.id == "list" and len(e.args) == 1 and not e.keywords:
            return f"(PV.toList {self.expr(e.args[0], cx)})"
        if t in ("np.empty", "np.zeros") and len(e.args) == 1 and [k.arg for k in e.keywords] == ["dtype"]:
            shape = e.args[0]
            if isinstance(shape, ast.Tuple) and len(shape.elts) == 1:
                shape = shape.elts[0]
            return f"(PV.npZeros {self.expr(shape, cx)} {self.width(e.keywords[0].value)})"
        if isinstance(f, ast.Name) and f.id == "int" and len(e.args) == 1 and not e.keywords:
            return f"(PV.toInt {self.expr(e.args[0], cx)})"
        if isinstance(f, ast.Name) and f.id == "isinstance" and len(e.args) == 2:
            a, b = flat(e.args[0]), flat(e.args[1])
            if a in cx["opaque"] and b:
                s = ident(f"{a}.isinstance.{b}")
                cx["symbols"].add(s)
                return s
            raise Unsupported(f"isinstance {src_of(e)} (line {e.lineno})")
        if isinstance(f, ast.Attribute) and isinstance(f.value, ast.Name) and f.value.id in cx["opaque"] \
                and not e.args and not e.keywords and f.attr not in EFFECT_METHODS:
            sname = ident(f"{f.value.id}.{f.attr}")          # e.g. out_dir.exists() -> out_dir_exists
            cx["symbols"].add(sname)
            return sname
        if isinstance(f, ast.Name) and f.id == "any" and len(e.args) == 1 and isinstance(e.args[0], ast.Call) \
                and isinstance(e.args[0].func, ast.Attribute) and isinstance(e.args[0].func.value, ast.Name) \
                and e.args[0].func.value.id in cx["opaque"] and not e.args[0].args:
            sname = ident(f"any.{e.args[0].func.value.id}.{e.args[0].func.attr}")
            cx["symbols"].add(sname)
            return sname
        if t in OPAQUE_CALLS and not e.args and not e.keywords:
            cx["symbols"].add(OPAQUE_CALLS[t])
            return OPAQUE_CALLS[t]
        if isinstance(f, ast.Name) and f.id in cx.get("closures", set()) and not e.args and not e.keywords:
            sname = ident(f.id + "_call")
            cx["symbols"].add(sname)
            return sname
        # <path>.exists() on a local path: an input of the function
        if isinstance(f, ast.Attribute) and f.attr == "exists" and isinstance(f.value, ast.Name) and f.value.id in cx["locals"] \
                and not e.args and not e.keywords:
            sname = ident(f.value.id + "_exists")
            cx["symbols"].add(sname)
            return sname
        # f.read() on a handle bound by `with open(...) as f`: the content is an input (the `read` effect is recorded by the statement)
        if isinstance(f, ast.Attribute) and f.attr == "read" and isinstance(f.value, ast.Name) and f.value.id in cx.get("handles_open", {}) \
                and not e.args and not e.keywords:
            sname = ident(f.value.id + "_read")
            cx["symbols"].add(sname)
            return sname
        if isinstance(f, ast.Attribute) and f.attr == "strip" and not e.args and not e.keywords:
            return f"(PV.strStrip {self.expr(f.value, cx)})"
        if isinstance(f, ast.Name) and f.id in LOOP_EXTERNALS and len(e.args) == 1 and not e.keywords and cx.get("loop_index"):
            sname = ident(f.id + "_of")
            cx["symbols"].add(sname)
            return f"(PV.getAt {sname} {cx['loop_index']})"
        if isinstance(f, ast.Attribute) and f.attr == "zfill" and len(e.args) == 1 and not e.keywords:
            return f"(PV.zfill {self.expr(f.value, cx)} {self.expr(e.args[0], cx)})"
        if isinstance(f, ast.Name) and f.id == "str" and len(e.args) == 1 and not e.keywords:
            return f"(PV.strOf {self.expr(e.args[0], cx)})"
        if t == "np.arange" and len(e.args) == 2 and not e.keywords:
            return f"(PV.arange {self.expr(e.args[0], cx)} {self.expr(e.args[1], cx)})"
        if t == "math.ceil" and len(e.args) == 1 and not e.keywords:
            return f"(PV.ceilF {self.expr(e.args[0], cx)})"
        if isinstance(f, ast.Name) and f.id == "float" and len(e.args) == 1 and not e.keywords:
            return f"(PV.floatOf {self.expr(e.args[0], cx)})"
        # <path>.with_name(e) on an opaque path parameter: the sibling of that name
        if isinstance(f, ast.Attribute) and f.attr == "with_name" and isinstance(f.value, ast.Name) and f.value.id in cx["opaque"] \
                and len(e.args) == 1 and not e.keywords:
            sname = ident(f.value.id + "_parent")
            cx["symbols"].add(sname)
            return f"(PV.pathJoin {sname} {self.expr(e.args[0], cx)})"
        # self.<field>.index(x): position of the first equal element (ValueError if there is none)
        if isinstance(f, ast.Attribute) and f.attr == "index" and flat(f.value) and flat(f.value).startswith("self.") \
                and f.value.attr in cx["selfattrs"] and len(e.args) == 1 and not e.keywords:
            return f"(PV.listIndex {cx['selfattrs'][f.value.attr]} {self.expr(e.args[0], cx)})"
        if t == "np.exp" and len(e.args) == 1 and not e.keywords:
            return f"(PV.exp expf {self.expr(e.args[0], cx)})"
        if t == "np.sum" and len(e.args) == 1 and not e.keywords:
            return f"(PV.npSum {self.expr(e.args[0], cx)})"
        if t == "np.dot" and len(e.args) == 2 and not e.keywords:
            return f"(PV.npDot {self.expr(e.args[0], cx)} {self.expr(e.args[1], cx)})"
        if t == "np.add" and len(e.args) == 2 and [k.arg for k in e.keywords] == ["dtype"]:
            dv = e.keywords[0].value
            if flat(dv) and flat(dv).startswith("np."):
                return (f"(PV.npAdd {self.expr(e.args[0], cx)} {self.expr(e.args[1], cx)} {self.width(dv)})")
            return (f"(PV.npAddD {self.expr(e.args[0], cx)} {self.expr(e.args[1], cx)} {self.expr(dv, cx)})")
        if t == "np.packbits" and len(e.args) == 1 and [k.arg for k in e.keywords] == ["axis"] \
                and src_of(e.keywords[0].value) == "-1":
            return f"(PV.packbits {self.expr(e.args[0], cx)})"
        if t == "np.min_scalar_type" and len(e.args) == 1 and not e.keywords:
            return f"(PV.minScalarType {self.expr(e.args[0], cx)})"
        if isinstance(f, ast.Attribute) and f.attr == "astype" and len(e.args) == 1 \
                and all(k.arg == "copy" for k in e.keywords):
            if flat(e.args[0]) and flat(e.args[0]).startswith("np."):
                return f"(PV.astype {self.expr(f.value, cx)} {self.width(e.args[0])})"
            return f"(PV.astypeD {self.expr(f.value, cx)} {self.expr(e.args[0], cx)})"
        if isinstance(f, ast.Attribute) and f.attr == "view" and len(e.args) == 1 and not e.keywords \
                and self.width(e.args[0]) == ".u8":
            return f"(PV.viewU8 {self.expr(f.value, cx)})"
        raise Unsupported(f"call {src_of(e)} (line {e.lineno})")

    # ---------------------------------------------------------------- list-valued expressions
    def lexpr(self, e, cx):
        """expression of a list-valued function's `return`: tuple, constructor call"""
        if isinstance(e, ast.Tuple):
            return "[" + ", ".join(self.expr(x, cx) for x in e.elts) + "]"
        if isinstance(e, ast.Name) and e.id in cx.get("loclists", set()):
            return ident(e.id)
        if isinstance(e, ast.Call) and isinstance(e.func, ast.Name):
            n = e.func.id
            if n == "cls" and cx.get("dataclass_fields") is not None:
                if e.keywords or len(e.args) != len(cx["dataclass_fields"]):
                    raise Unsupported(f"constructor call {src_of(e)} (line {e.lineno})")
                return "[" + ", ".join(self.expr(x, cx) for x in e.args) + "]"

        raise Unsupported(f"list-valued expression {src_of(e)} (line {e.lineno})")

    def fields_now(self, cx):
        return "[" + ", ".join(cx["selfattrs"][x] for x in self.classes[cx["cls"]]["fields"]) + "]"

    def guarded(self, pad, var, cx, rest_txt, ind):
        """after `let var := e` in a state-changing method with a status element: an exception in `e` ends the method"""
        if not cx.get("status_first"):
            return rest_txt
        inner = "\n".join("  " + l for l in rest_txt.split("\n"))
        return pad + f"PV.guardL {var} {self.fields_now(cx)} (\n" + inner + "\n" + pad + ")"

    # ---------------------------------------------------------------- statements
    def stmts(self, body, cx, kind, end, ind):
        """translate a statement list; `end` = Lean text of the value when control falls off the end"""
        pad = "  " * ind
        if not body:
            if end is None:
                raise Unsupported("control reaches the end of a value-returning function")
            return pad + end(cx)
        s, rest = body[0], body[1:]
        if isinstance(s, ast.Expr) and isinstance(s.value, ast.Constant) and isinstance(s.value.value, str):
            return self.stmts(rest, cx, kind, end, ind)          # docstring
        cls_ = cx.get("cls")
        logf = self.classes[cls_].get("log_field") if cls_ else None
        if logf and not getattr(s, "_log_done", False):
            def log_items(items):
                cur = cx["selfattrs"][logf]
                for it_ in items:
                    cur = f"(PV.listAppend {cur} {it_})"
                return cur

            def hname(a_):
                return isinstance(a_, ast.Name) and (a_.id in cx.get("handles", set()) or a_.id in cx.get("tokens", set()))
            call_ = s.value if isinstance(s, (ast.Assign, ast.Expr)) and isinstance(s.value, ast.Call) else None
            # super().<method>(...) : logged
            if isinstance(s, ast.Expr) and call_ is not None and isinstance(call_.func, ast.Attribute) \
                    and isinstance(call_.func.value, ast.Call) and isinstance(call_.func.value.func, ast.Name) \
                    and call_.func.value.func.id == "super" and call_.func.attr in self.classes[cls_].get("super_calls", {}):
                new = log_items([f"(PV.int {self.classes[cls_]['super_calls'][call_.func.attr]})"])
                lean = "self_" + logf
                cx2 = dict(cx, selfattrs=dict(cx["selfattrs"], **{logf: lean}))
                return pad + f"let {lean} := {new}\n" + self.stmts(rest, cx2, kind, end, ind)
            # self.<field> = self.<untranslated method>() : logged; the result is an input named after this function and the method
            if isinstance(s, ast.Assign) and call_ is not None and isinstance(call_.func, ast.Attribute) \
                    and isinstance(call_.func.value, ast.Name) and call_.func.value.id == "self" \
                    and call_.func.attr in self.classes[cls_].get("self_calls", {}) and not call_.args and not call_.keywords \
                    and len(s.targets) == 1 and flat(s.targets[0]) and flat(s.targets[0]).startswith("self.") \
                    and s.targets[0].attr in cx["selfattrs"]:
                sname = ident(f"{cx.get('fn_name', 'f')}_{call_.func.attr}")
                cx["symbols"].add(sname)
                new = log_items([f"(PV.int {self.classes[cls_]['self_calls'][call_.func.attr]})"])
                lean, fl = "self_" + logf, "self_" + s.targets[0].attr
                cx2 = dict(cx, selfattrs=dict(cx["selfattrs"], **{logf: lean, s.targets[0].attr: fl}))
                return pad + f"let {lean} := {new}\n" + pad + f"let {fl} := {sname}\n" + self.stmts(rest, cx2, kind, end, ind)
            # x = self.<handle list>[i]  : x is a handle
            if isinstance(s, ast.Assign) and len(s.targets) == 1 and isinstance(s.targets[0], ast.Name) \
                    and isinstance(s.value, ast.Subscript) and flat(s.value.value) and flat(s.value.value).startswith("self.") \
                    and s.value.value.attr in self.classes[cls_].get("handle_lists", []):
                nm = s.targets[0].id
                cx2 = dict(cx, locals=cx["locals"] | {nm}, handles=set(cx.get("handles", set())) | {nm})
                return pad + f"let {ident(nm)} := {self.expr(s.value, cx)}\n" \
                    + self.guarded(pad, ident(nm), cx, self.stmts(rest, cx2, kind, end, ind), ind)
            # x = <handle>.child : a node token (or None)
            if isinstance(s, ast.Assign) and len(s.targets) == 1 and isinstance(s.targets[0], ast.Name) \
                    and isinstance(s.value, ast.Attribute) and hname(s.value.value) and s.value.attr == "child":
                nm = s.targets[0].id
                cx2 = dict(cx, locals=cx["locals"] | {nm}, tokens=set(cx.get("tokens", set())) | {nm})
                return pad + f"let {ident(nm)} := {self.expr(s.value, cx)}\n" + self.stmts(rest, cx2, kind, end, ind)
            # x = EXTERNAL(...) : the value is an input named x
            if isinstance(s, ast.Assign) and call_ is not None and flat(call_.func) in EXTERNAL_ASSIGN \
                    and len(s.targets) == 1 and isinstance(s.targets[0], ast.Name):
                nm = s.targets[0].id
                cx["symbols"].add(ident(nm))
                cx2 = dict(cx, params=cx["params"] | {nm})
                return self.stmts(rest, cx2, kind, end, ind)
            # a, b = LOGGED_EXTERNAL(token) : logged; the results are inputs (handles)
            if isinstance(s, ast.Assign) and call_ is not None and flat(call_.func) in LOGGED_EXTERNALS and len(s.targets) == 1 \
                    and isinstance(s.targets[0], ast.Tuple) and all(isinstance(x, ast.Name) for x in s.targets[0].elts) \
                    and all(hname(a_) for a_ in call_.args) and not call_.keywords:
                names = [x.id for x in s.targets[0].elts]
                for nm in names:
                    cx["symbols"].add(ident(nm))
                new = log_items([f"(PV.int {LOGGED_EXTERNALS[flat(call_.func)]})"] + [ident(a_.id) for a_ in call_.args])
                lean = "self_" + logf
                cx2 = dict(cx, params=cx["params"] | set(names), handles=set(cx.get("handles", set())) | set(names),
                           selfattrs=dict(cx["selfattrs"], **{logf: lean}))
                return pad + f"let {lean} := {new}\n" + self.stmts(rest, cx2, kind, end, ind)
            # [x =] <handle or token>.<logged method>(args) : logged (receiver and handle arguments); a result is an input named x
            if call_ is not None and isinstance(call_.func, ast.Attribute) and call_.func.attr in HANDLE_METHODS \
                    and hname(call_.func.value) and not call_.keywords:
                items = [f"(PV.int {HANDLE_METHODS[call_.func.attr]})", ident(call_.func.value.id)] \
                    + [ident(a_.id) for a_ in call_.args if hname(a_)]
                new = log_items(items)
                lean = "self_" + logf
                cx2 = dict(cx, selfattrs=dict(cx["selfattrs"], **{logf: lean}))
                if isinstance(s, ast.Assign):
                    if not (len(s.targets) == 1 and isinstance(s.targets[0], ast.Name)):
                        raise Unsupported(f"assignment {src_of(s)} (line {s.lineno})")
                    nm = s.targets[0].id
                    cx["symbols"].add(ident(nm))
                    cx2["params"] = cx["params"] | {nm}
                return pad + f"let {lean} := {new}\n" + self.stmts(rest, cx2, kind, end, ind)
        # x = []  : a local list (built by append, returned or carried through a loop)
        if isinstance(s, ast.Assign) and len(s.targets) == 1 and isinstance(s.targets[0], ast.Name) \
                and isinstance(s.value, ast.List) and not s.value.elts:
            nm = s.targets[0].id
            cx2 = dict(cx, loclists=cx.get("loclists", set()) | {nm})
            return pad + f"let {ident(nm)} : List PV := []\n" + self.stmts(rest, cx2, kind, end, ind)
        # x.append(e) / x.append((a, b, ...)) on a local list: tuples are flattened
        if isinstance(s, ast.Expr) and isinstance(s.value, ast.Call) and isinstance(s.value.func, ast.Attribute) \
                and s.value.func.attr == "append" and isinstance(s.value.func.value, ast.Name) \
                and s.value.func.value.id in cx.get("loclists", set()) and len(s.value.args) == 1 and not s.value.keywords:
            nm = ident(s.value.func.value.id)
            a_ = s.value.args[0]
            items = [self.expr(x, cx) for x in a_.elts] if isinstance(a_, ast.Tuple) else [self.expr(a_, cx)]
            return pad + f"let {nm} := {nm} ++ [" + ", ".join(items) + "]\n" + self.stmts(rest, cx, kind, end, ind)
        if isinstance(s, ast.For):
            if s.orelse or kind != "L":
                raise Unsupported(f"for loop (line {s.lineno})")
            it, tg = s.iter, s.target
            if isinstance(it, ast.Call) and isinstance(it.func, ast.Name) and it.func.id == "enumerate" and len(it.args) == 1 \
                    and isinstance(tg, ast.Tuple) and len(tg.elts) == 2 and all(isinstance(x, ast.Name) for x in tg.elts):
                seq, ivar, xvar = it.args[0], tg.elts[0].id, tg.elts[1].id
            elif isinstance(tg, ast.Name):
                seq, ivar, xvar = it, None, tg.id
            else:
                raise Unsupported(f"for loop {src_of(tg)} in {src_of(it)} (line {s.lineno})")
            if not (isinstance(seq, ast.Name) and seq.id in cx["params"]):
                raise Unsupported(f"for loop over {src_of(seq)} (line {s.lineno})")
            for n in ast.walk(s):
                if isinstance(n, (ast.Break, ast.Continue, ast.Return, ast.If, ast.While)) or (isinstance(n, ast.For) and n is not s):
                    raise Unsupported(f"control flow inside a for loop (line {n.lineno})")
            assigned = []
            for n in ast.walk(s):
                if isinstance(n, (ast.Assign, ast.AugAssign)):
                    for t_ in (n.targets if isinstance(n, ast.Assign) else [n.target]):
                        if isinstance(t_, ast.Name) and t_.id not in assigned:
                            assigned.append(t_.id)
            scal = [v for v in assigned if v in cx["locals"]]
            lists = [v for v in sorted(cx.get("loclists", set()))
                     if any(isinstance(n, ast.Call) and isinstance(n.func, ast.Attribute) and n.func.attr == "append"
                            and isinstance(n.func.value, ast.Name) and n.func.value.id == v for n in ast.walk(s))]
            if len(lists) > 1:
                raise Unsupported(f"for loop carrying several lists (line {s.lineno})")
            lst = lists[0] if lists else None
            p2 = pad + "    "
            head = "".join(p2 + f"let {ident(v)} := st_.1.getD {k} PV.pynone\n" for k, v in enumerate(scal))
            if lst:
                head += p2 + f"let {ident(lst)} := st_.2\n"
            cxb = dict(cx, locals=cx["locals"] | {xvar} | ({ivar} if ivar else set()), loop_index="i_")

            def end_body(c):
                return "([" + ", ".join(ident(v) for v in scal) + "], " + (ident(lst) if lst else "[]") + ")"
            body_txt = self.stmts(list(s.body), cxb, "L", end_body, ind + 2)
            ivar_l = ident(ivar) if ivar else "_"
            out = pad + f"let st_ := PV.forEnum {self.expr(seq, cx)} ([" + ", ".join(ident(v) for v in scal) + "], " \
                + (ident(lst) if lst else "[]") + f") (fun i_ {ident(xvar)} st_ =>\n"
            if ivar:
                out += p2 + f"let {ivar_l} := i_\n"
            out += head + body_txt + ")\n"
            out += "".join(pad + f"let {ident(v)} := st_.1.getD {k} PV.pynone\n" for k, v in enumerate(scal))
            if lst:
                out += pad + f"let {ident(lst)} := st_.2\n"
            return out + self.stmts(rest, cx, kind, end, ind)
        if isinstance(s, _Close):
            cx2 = dict(cx, locals=cx["locals"] | {"eff_"})
            return pad + f'let eff_ := eff_ ++ [PV.str "close", {s.path}]\n' + self.stmts(rest, cx2, kind, end, ind)
        if isinstance(s, ast.With):
            if len(s.items) != 1 or kind != "L":
                raise Unsupported(f"with statement (line {s.lineno})")
            it = s.items[0]
            ce = it.context_expr
            if not (isinstance(ce, ast.Call) and isinstance(ce.func, ast.Name) and ce.func.id == "open" and len(ce.args) == 1
                    and isinstance(it.optional_vars, ast.Name)):
                raise Unsupported(f"with statement {src_of(it)} (line {s.lineno})")
            mode = self.kw(ce, "mode")
            if not (isinstance(mode, ast.Constant) and isinstance(mode.value, str)):
                raise Unsupported(f"open() without a literal mode (line {s.lineno})")
            a0 = ce.args[0]
            path = f'(PV.str "{a0.id}")' if isinstance(a0, ast.Name) and a0.id in cx["opaque"] else self.expr(a0, cx)
            cx2 = dict(cx, locals=cx["locals"] | {"eff_"}, fh=dict(cx.get("fh", {}), **{it.optional_vars.id: path}),
                       handles_open=dict(cx.get("fh", {}), **{it.optional_vars.id: path}))
            return (pad + f'let eff_ := eff_ ++ [PV.str "open", {path}, PV.str "{mode.value}"]\n'
                    + self.stmts(list(s.body) + [_Close(path)] + rest, cx2, kind, end, ind))
        if isinstance(s, ast.Expr) and isinstance(s.value, ast.Call):
            c_ = s.value
            hs = cx.get("fh", {})
            # f.write(x) / f.flush() / os.fsync(f.fileno()) on a handle bound by `with open(...) as f`
            if isinstance(c_.func, ast.Attribute) and isinstance(c_.func.value, ast.Name) and c_.func.value.id in hs:
                path = hs[c_.func.value.id]
                if c_.func.attr == "write" and len(c_.args) == 1:
                    a_ = c_.args[0]
                    if isinstance(a_, ast.JoinedStr):
                        parts = []
                        for v_ in a_.values:
                            if isinstance(v_, ast.Constant):
                                parts.append(self.const(v_.value, v_))
                            elif isinstance(v_, ast.FormattedValue) and v_.format_spec is None and v_.conversion == -1:
                                parts.append(self.expr(v_.value, cx))
                            else:
                                raise Unsupported(f"f-string part in {src_of(a_)} (line {s.lineno})")
                    else:
                        parts = [self.expr(a_, cx)]
                    cx2 = dict(cx, locals=cx["locals"] | {"eff_"})
                    return pad + f'let eff_ := eff_ ++ [PV.str "write", {path}, PV.int {len(parts)}, ' + ", ".join(parts) + "]\n" \
                        + self.stmts(rest, cx2, kind, end, ind)
                if c_.func.attr == "flush" and not c_.args:
                    cx2 = dict(cx, locals=cx["locals"] | {"eff_"})
                    return pad + f'let eff_ := eff_ ++ [PV.str "flush", {path}]\n' + self.stmts(rest, cx2, kind, end, ind)
            if flat(c_.func) == "pickle.dump" and len(c_.args) == 2 and not c_.keywords and isinstance(c_.args[1], ast.Name) \
                    and c_.args[1].id in hs and isinstance(c_.args[0], ast.Name):
                cx2 = dict(cx, locals=cx["locals"] | {"eff_"})
                return pad + f'let eff_ := eff_ ++ [PV.str "pickle.dump", {hs[c_.args[1].id]}, PV.str "{c_.args[0].id}"]\n' \
                    + self.stmts(rest, cx2, kind, end, ind)
            if flat(c_.func) == "os.fsync" and len(c_.args) == 1 and isinstance(c_.args[0], ast.Call) \
                    and isinstance(c_.args[0].func, ast.Attribute) and c_.args[0].func.attr == "fileno" \
                    and isinstance(c_.args[0].func.value, ast.Name) and c_.args[0].func.value.id in hs:
                cx2 = dict(cx, locals=cx["locals"] | {"eff_"})
                return pad + f'let eff_ := eff_ ++ [PV.str "fsync", {hs[c_.args[0].func.value.id]}]\n' \
                    + self.stmts(rest, cx2, kind, end, ind)
        if isinstance(s, ast.Expr) and isinstance(s.value, ast.Call) and isinstance(s.value.func, ast.Attribute):
            f = s.value.func
            # self.<field>.extend(x)
            if f.attr == "extend" and flat(f.value) and flat(f.value).startswith("self.") and f.value.attr in cx["selfattrs"] \
                    and len(s.value.args) == 1 and not s.value.keywords:
                attr = f.value.attr
                lean = "self_" + attr
                val = f"(PV.listExtend {cx['selfattrs'][attr]} {self.expr(s.value.args[0], cx)})"
                cx2 = dict(cx, selfattrs=dict(cx["selfattrs"], **{attr: lean}))
                return pad + f"let {lean} := {val}\n" + self.stmts(rest, cx2, kind, end, ind)
            # self.<field>.append(x)
            if f.attr == "append" and flat(f.value) and flat(f.value).startswith("self.") and f.value.attr in cx["selfattrs"] \
                    and len(s.value.args) == 1 and not s.value.keywords:
                attr = f.value.attr
                lean = "self_" + attr
                val = f"(PV.listAppend {cx['selfattrs'][attr]} {self.expr(s.value.args[0], cx)})"
                cx2 = dict(cx, selfattrs=dict(cx["selfattrs"], **{attr: lean}))
                return pad + f"let {lean} := {val}\n" + self.stmts(rest, cx2, kind, end, ind)
            # self.<method>(...) of a translated state-changing method: the fields are rebound from its result
            cls = cx.get("cls")
            if cls and isinstance(f.value, ast.Name) and f.value.id == "self" and f.attr in self.classes[cls].get("mutators", {}):
                info = self.classes[cls]["mutators"][f.attr]
                flds = self.classes[cls]["fields"]
                args = self.bind_args(info, s.value, cx)
                # the callee's symbol parameters `<param>_<attr>` of its handle parameters: the same attribute of the argument
                for sy in info.symbols:
                    hp = [h for h in info.handles if sy.startswith(ident(h + "_"))]
                    if not hp:
                        cx["symbols"].add(sy)        # an input of the callee is an input of the caller
                        args.append(sy)
                        continue
                    if len(hp) != 1 or s.value.keywords:
                        raise Unsupported(f"call of {f.attr}, whose parameter {sy} cannot be bound (line {s.lineno})")
                    a_ = s.value.args[info.params.index(hp[0])]
                    if not (isinstance(a_, ast.Name) and a_.id in cx.get("handles", set())):
                        raise Unsupported(f"argument {src_of(a_)} of {f.attr} is not a handle parameter (line {s.lineno})")
                    sname = ident(a_.id + sy[len(ident(hp[0])):])
                    cx["symbols"].add(sname)
                    args.append(sname)
                call = " ".join([info.lean_name, "expf"] + [cx["selfattrs"][x] for x in flds] + args)
                out = pad + f"let st_ := {call}\n"
                new_attrs = dict(cx["selfattrs"])
                for i, x in enumerate(flds):
                    out += pad + f"let self_{x} := st_.getD {i + info.n_ret} PV.pynone\n"
                    new_attrs[x] = "self_" + x
                cx2 = dict(cx, selfattrs=new_attrs)
                return out + self.stmts(rest, cx2, kind, end, ind)
        if isinstance(s, ast.Expr) and isinstance(s.value, ast.Call):
            t = flat(s.value.func)
            if t in DROPPED_CALLS:
                return self.stmts(rest, cx, kind, end, ind)
            fm = s.value.func
            if isinstance(fm, ast.Attribute) and isinstance(fm.value, ast.Name) and fm.value.id in cx["opaque"] \
                    and fm.attr in EFFECT_METHODS and not s.value.args and not s.value.keywords:
                cx2 = dict(cx, locals=cx["locals"] | {"eff_"})
                return pad + f'let eff_ := eff_ ++ [PV.str "{fm.value.id}.{fm.attr}"]\n' + self.stmts(rest, cx2, kind, end, ind)
            if t in EFFECTS:
                if kind != "L":
                    raise Unsupported(f"effect {t} in a value function (line {s.lineno})")
                args = ", ".join([f'PV.str "{t}"'] + [(f'PV.str "{a.id}"' if isinstance(a, ast.Name) and a.id in cx["opaque"]
                                                     else self.expr(a, cx)) for a in s.value.args])
                cx2 = dict(cx, locals=cx["locals"] | {"eff_"})
                return pad + f"let eff_ := eff_ ++ [{args}]\n" + self.stmts(rest, cx2, kind, end, ind)
            raise Unsupported(f"statement {src_of(s)} (line {s.lineno})")
        if isinstance(s, ast.Assign) and cx.get("fh") and not getattr(s, "_read_done", False):
            reads = [n for n in ast.walk(s.value) if isinstance(n, ast.Call) and isinstance(n.func, ast.Attribute)
                     and n.func.attr == "read" and isinstance(n.func.value, ast.Name) and n.func.value.id in cx["fh"]]
            if reads:
                if len(reads) != 1:
                    raise Unsupported(f"several reads in one statement (line {s.lineno})")
                s._read_done = True
                cx2 = dict(cx, locals=cx["locals"] | {"eff_"})
                return pad + f'let eff_ := eff_ ++ [PV.str "read", {cx["fh"][reads[0].func.value.id]}]\n' \
                    + self.stmts([s] + rest, cx2, kind, end, ind)
        if isinstance(s, (ast.Assign, ast.AugAssign, ast.AnnAssign)):
            if isinstance(s, ast.Assign):
                if len(s.targets) != 1:
                    raise Unsupported(f"multiple assignment (line {s.lineno})")
                tgt, val = s.targets[0], self.expr(s.value, cx)
            elif isinstance(s, ast.AnnAssign):
                if s.value is None:
                    return self.stmts(rest, cx, kind, end, ind)
                tgt, val = s.target, self.expr(s.value, cx)
            else:
                ops = {ast.Add: "add", ast.Sub: "sub", ast.Mult: "mul"}
                o = [v for k, v in ops.items() if isinstance(s.op, k)]
                if not o:
                    raise Unsupported(f"augmented assignment (line {s.lineno})")
                tgt = s.target
                val = None if isinstance(tgt, ast.Subscript) else \
                    f"(PV.{o[0]} {self.expr(s.target, cx)} {self.expr(s.value, cx)})"
            # obj.attr = v on a local variable holding a merge-function object (value semantics: see DESIGN, aliasing)
            if isinstance(tgt, ast.Attribute) and isinstance(tgt.value, ast.Name) and tgt.value.id in cx["locals"] \
                    and tgt.attr in self.dispatch_attrs and isinstance(s, ast.Assign):
                nm = ident(tgt.value.id)
                return pad + f'let {nm} := {DISPATCH_BASE}_setattr {nm} "{tgt.attr}" {self.expr(s.value, cx)}\n' \
                    + self.guarded(pad, nm, cx, self.stmts(rest, cx, kind, end, ind), ind)
            # x.flags.writeable = False on a local view: no effect on values
            if isinstance(tgt, ast.Attribute) and flat(tgt) and flat(tgt).endswith(".flags.writeable") \
                    and root_name(tgt) in cx["locals"]:
                return self.stmts(rest, cx, kind, end, ind)
            # self.<field>[:-1] = e   /   self.<field>[-1] = e   /   self.<field>[:-1] += e
            if isinstance(tgt, ast.Subscript) and flat(tgt.value) and flat(tgt.value).startswith("self.") \
                    and tgt.value.attr in cx["selfattrs"]:
                attr = tgt.value.attr
                cur = cx["selfattrs"][attr]
                is_init = isinstance(tgt.slice, ast.Slice) and tgt.slice.lower is None and tgt.slice.step is None \
                    and tgt.slice.upper is not None and src_of(tgt.slice.upper) == "-1"
                is_last = not isinstance(tgt.slice, ast.Slice) and src_of(tgt.slice) == "-1"
                rhs = self.expr(s.value, cx)
                if isinstance(s, ast.AugAssign):
                    if not (is_init and isinstance(s.op, ast.Add)):
                        raise Unsupported(f"augmented subscript assignment {src_of(s)} (line {s.lineno})")
                    newv = f"(PV.iaddInit {cur} {rhs})"
                elif is_init:
                    newv = f"(PV.setInit {cur} {rhs})"
                elif is_last:
                    newv = f"(PV.setLast {cur} {rhs})"
                elif not isinstance(tgt.slice, ast.Slice) and isinstance(s, ast.Assign):
                    newv = f"(PV.setAt {cur} {self.expr(tgt.slice, cx)} {rhs})"
                else:
                    raise Unsupported(f"subscript assignment {src_of(s)} (line {s.lineno})")
                lean = "self_" + attr
                cx2 = dict(cx, selfattrs=dict(cx["selfattrs"], **{attr: lean}))
                return pad + f"let {lean} := {newv}\n" + self.stmts(rest, cx2, kind, end, ind)
            if isinstance(tgt, ast.Subscript) and isinstance(tgt.value, ast.Name) and tgt.value.id in cx["locals"] \
                    and isinstance(s, ast.Assign):
                nm = ident(tgt.value.id)
                is_init_ = isinstance(tgt.slice, ast.Slice) and tgt.slice.lower is None and tgt.slice.step is None \
                    and tgt.slice.upper is not None and src_of(tgt.slice.upper) == "-1"
                is_last_ = not isinstance(tgt.slice, ast.Slice) and src_of(tgt.slice) == "-1"
                if not (is_init_ or is_last_):
                    raise Unsupported(f"subscript assignment {src_of(s)} (line {s.lineno})")
                op_ = "setInit" if is_init_ else "setLast"
                return pad + f"let {nm} := (PV.{op_} {nm} {self.expr(s.value, cx)})\n" \
                    + self.guarded(pad, nm, cx, self.stmts(rest, cx, kind, end, ind), ind)
            if isinstance(tgt, ast.Name):
                name = ident(tgt.id)
                cx2 = dict(cx, locals=cx["locals"] | {tgt.id})
                return pad + f"let {name} := {val}\n" + self.guarded(pad, name, cx, self.stmts(rest, cx2, kind, end, ind), ind)
            t = flat(tgt)
            if t and t.startswith("self.") and t.count(".") == 1:
                attr = tgt.attr
                if cx.get("only_fields") is not None and attr not in cx["only_fields"]:
                    raise Unsupported(f"assignment to self.{attr}, which is not followed (line {s.lineno})")
                lean = "self_" + attr
                cx2 = dict(cx, selfattrs=dict(cx["selfattrs"], **{attr: lean}))
                cx2["written"] = cx.get("written", []) + ([attr] if attr not in cx.get("written", []) else [])
                if cx.get("status_first"):
                    return (pad + f"let v_ := {val}\n"
                            + self.guarded(pad, "v_", cx, pad + f"let {lean} := v_\n" + self.stmts(rest, cx2, kind, end, ind), ind))
                return pad + f"let {lean} := {val}\n" + self.stmts(rest, cx2, kind, end, ind)
            # an assignment to an attribute of ANOTHER object (self.<x>.<y> = v, other.<y> = v): it cannot change a followed field
            # of self; dropped (frame).  Only in classes whose followed fields are listed explicitly.
            cls__ = cx.get("cls")
            if cls__ and self.classes[cls__].get("explicit_fields") and isinstance(tgt, ast.Attribute) and t and t.count(".") >= 2 \
                    and isinstance(s, ast.Assign):
                return self.stmts(rest, cx, kind, end, ind)
            raise Unsupported(f"assignment target {src_of(tgt)} (line {s.lineno})")
        if isinstance(s, ast.Return):
            if s.value is None:
                if end is None:
                    raise Unsupported(f"bare return (line {s.lineno})")
                return pad + end(cx)
            if cx.get("mutating"):
                flds = self.classes[cx["cls"]]["fields"]
                rv = '(PV.str "self")' if isinstance(s.value, ast.Name) and s.value.id == "self" else self.expr(s.value, cx)
                return pad + "[" + ", ".join([rv] + [cx["selfattrs"][x] for x in flds]) + "]"
            if cx.get("ret_effects"):
                return pad + f"eff_ ++ [{self.expr(s.value, cx)}]"
            return pad + (self.expr(s.value, cx) if kind == "V" else self.lexpr(s.value, cx))
        if isinstance(s, ast.Raise):
            exc = s.exc
            name = exc.func.id if isinstance(exc, ast.Call) and isinstance(exc.func, ast.Name) else \
                (exc.id if isinstance(exc, ast.Name) else None)
            if name is None:
                raise Unsupported(f"raise {src_of(s)} (line {s.lineno})")
            v = f'(PV.err "{name}")'
            if cx.get("mutating"):
                flds = self.classes[cx["cls"]]["fields"]
                return pad + "[" + ", ".join([v] + [cx["selfattrs"][x] for x in flds]) + "]"
            return pad + (v if kind == "V" else f"[{v}]")
        if isinstance(s, ast.If):
            c = self.expr(s.test, cx)
            ite = "PV.ite" if kind == "V" else ("PV.iteLS" if cx.get("status_first") else "PV.iteL")
            if cx.get("status_first"):
                c = c + " " + self.fields_now(cx)
            a = self.stmts(list(s.body) + rest, cx, kind, end, ind + 2)
            b = self.stmts(list(s.orelse) + rest, cx, kind, end, ind + 2)
            return (pad + f"{ite} {c}\n" + pad + "  (\n" + a + "\n" + pad + "  )\n"
                    + pad + "  (\n" + b + "\n" + pad + "  )")
        raise Unsupported(f"statement {src_of(s)} (line {s.lineno})")

    # ---------------------------------------------------------------- functions
    def fn_kind(self, fn, is_init, is_proc):
        if is_init or is_proc:
            return "L"
        if any(isinstance(n, ast.For) for n in ast.walk(fn)):
            return "L"
        for n in ast.walk(fn):
            if isinstance(n, ast.Return) and n.value is not None:
                v = n.value
                if isinstance(v, ast.Tuple):
                    return "L"
                if isinstance(v, ast.Call) and isinstance(v.func, ast.Name) and v.func.id == "cls":
                    return "L"
        return "V"

    def emit_fn(self, fn, lean_name, path, qual, cls=None):
        # a decorator changes what the name denotes (caching, wrapping): only the ones whose meaning the translation
        # accounts for are accepted
        for dec in fn.decorator_list:
            if isinstance(dec, ast.Call) and flat(dec.func) in TRANSPARENT_DECORATORS:
                continue
            if flat(dec) not in ("classmethod", "staticmethod", "property"):
                raise Unsupported(f"decorator @{src_of(dec)} on {qual} (line {fn.lineno})")
        a = fn.args
        if a.vararg or a.kwarg or a.posonlyargs:
            raise Unsupported(f"signature of {qual}")
        params = [x.arg for x in a.args] + [x.arg for x in a.kwonlyargs]
        defaults = {}
        for p, d in zip([x.arg for x in a.args][len(a.args) - len(a.defaults):], a.defaults):
            defaults[p] = d
        for p, d in zip([x.arg for x in a.kwonlyargs], a.kw_defaults):
            if d is not None:
                defaults[p] = d
        is_method = cls is not None
        is_classmethod = is_method and any(
            isinstance(d, ast.Name) and d.id == "classmethod" for d in fn.decorator_list)
        is_init = is_method and fn.name == "__init__"
        selfattrs, selfparams = {}, []
        fields = None
        if is_method:
            params = params[1:]
            c = self.classes[cls]
            fields = c.get("fields")
            if not is_init and not is_classmethod:
                attrs = fields if fields is not None else c["attrs"]
                selfattrs = {x: "self_" + x for x in attrs}
                selfparams = ["self_" + x for x in attrs]
        has_return_value = any(isinstance(n, ast.Return) and n.value is not None for n in ast.walk(fn))
        is_property = any(flat(d) == "property" for d in fn.decorator_list)
        # object-valued parameters: annotated with a translated class (expanded into its fields) or with the
        # merge-function base class (a `List PV`: class name :: attributes)
        objparams, listparams, handle_params = {}, set(), set()
        for x in list(a.args) + list(a.kwonlyargs):
            ann = x.annotation
            nm = ann.value if isinstance(ann, ast.Constant) and isinstance(ann.value, str) else (ann.id if isinstance(ann, ast.Name) else None)
            if cls is not None and nm in self.classes[cls].get("handles", []) and x.arg not in ("self", "cls"):
                handle_params.add(x.arg)
            elif nm in self.classes and self.classes[nm].get("fields") is not None and x.arg not in ("self", "cls"):
                objparams[x.arg] = nm
            elif nm == DISPATCH_BASE:
                listparams.add(x.arg)
        # a method that assigns to a field of self, or calls one that does, changes the state: it returns the fields
        mutating = False
        if is_method and not is_init and not is_classmethod and fields is not None and not is_property:
            for n in ast.walk(fn):
                if isinstance(n, (ast.Assign, ast.AugAssign)):
                    for tg in (n.targets if isinstance(n, ast.Assign) else [n.target]):
                        if root_name(tg) == "self":
                            mutating = True
                if isinstance(n, ast.Call) and isinstance(n.func, ast.Attribute):
                    if isinstance(n.func.value, ast.Name) and n.func.value.id == "self" \
                            and n.func.attr in self.classes[cls].get("mutators", {}):
                        mutating = True
                    if n.func.attr in ("extend", "append") and root_name(n.func.value) == "self":
                        mutating = True
                    if self.classes[cls].get("log_field") and n.func.attr in HANDLE_METHODS and isinstance(n.func.value, ast.Name) \
                            and n.func.value.id != "self":
                        mutating = True
        uses_effects = any(isinstance(n, ast.Call) and flat(n.func) in EFFECTS for n in ast.walk(fn)) \
            or any(isinstance(n, ast.With) for n in ast.walk(fn))
        if uses_effects:
            mutating = False        # a procedure with recorded effects: effect list ++ fields (as before)
        has_raise = any(isinstance(n, ast.Raise) for n in ast.walk(fn))
        status_first = mutating and (has_return_value or has_raise)
        is_proc = is_method and not is_init and not has_return_value and not mutating
        is_fproc = (not is_method) and uses_effects      # with a return value: the effect list ends with the value
        kind = "L" if (mutating or is_fproc) else self.fn_kind(fn, is_init, is_proc)
        # opaque parameters: those whose attributes are read (other than by vocabulary methods)
        opaque = set()
        for n in ast.walk(fn):
            if isinstance(n, ast.Attribute) and isinstance(n.value, ast.Name) and n.value.id in params \
                    and n.attr not in ("astype", "view") and n.attr not in self.dispatch_attrs:
                opaque.add(n.value.id)
            if isinstance(n, ast.Call) and isinstance(n.func, ast.Name) and n.func.id == "isinstance" \
                    and isinstance(n.args[0], ast.Name) and n.args[0].id in params and flat(n.args[1]) != DISPATCH_BASE:
                opaque.add(n.args[0].id)
        for n in ast.walk(fn):
            if isinstance(n, ast.Call) and flat(n.func) in EFFECTS:
                for a_ in n.args:
                    if isinstance(a_, ast.Name) and a_.id in params:
                        opaque.add(a_.id)
        opaque -= set(objparams) | listparams | handle_params
        cx = {"params": set(params) - opaque - set(objparams), "selfattrs": selfattrs, "symbols": set(),
              "locals": set(), "opaque": opaque, "dataclass_fields": fields if is_classmethod else None,
              "written": [], "cls": cls, "objparams": objparams, "listparams": listparams, "mutating": mutating,
              "status_first": status_first, "closures": set(getattr(fn, "_closures", [])), "handles": handle_params,
              "ret_effects": is_fproc and has_return_value, "fn_name": fn.name}
        partial = is_init and self.classes[cls].get("partial_init")
        if partial:
            def end(c):
                return "[" + ", ".join(["PV.pynone"] + [c["selfattrs"].get(x, "PV.pynone") for x in fields]) + "]"
            cx["mutating"] = True       # `raise` keeps the fields assigned so far, preceded by the error
            cx["status_first"] = True
            cx["only_fields"] = set(fields)
            cx["selfattrs"] = {x: "PV.pynone" for x in fields}
        elif is_init:
            def end(c):
                return "[" + ", ".join(c["selfattrs"][x] for x in sorted(c["selfattrs"])) + "]"
        elif is_proc:
            cx["locals"] = {"eff_"}
            attrs = fields if fields is not None else self.classes[cls]["attrs"]

            def end(c):
                return "eff_ ++ [" + ", ".join(c["selfattrs"][x] for x in attrs) + "]"
        elif is_fproc:
            cx["locals"] = {"eff_"}
            state_vars = getattr(fn, "_state_vars", [])

            def end(c):
                return "eff_" + (" ++ [" + ", ".join(ident(v) for v in state_vars) + "]" if state_vars else "")
        elif mutating:
            def end(c):
                return "[" + ", ".join((["PV.pynone"] if status_first else []) + [c["selfattrs"][x] for x in fields]) + "]"
        else:
            end = None
        stmts_src = list(fn.body)
        if partial:
            # the longest translatable prefix; the remaining statements must not assign the followed attributes
            k = len(stmts_src)
            while k > 0:
                try:
                    self.stmts(stmts_src[:k], dict(cx, symbols=set()), "L", end, 1)
                    break
                except Unsupported:
                    k -= 1
            if k == 0:
                raise Unsupported(f"{qual}: no translatable prefix")
            for st in stmts_src[k:]:
                for n in ast.walk(st):
                    if isinstance(n, (ast.Assign, ast.AugAssign, ast.AnnAssign)):
                        for tg in (n.targets if isinstance(n, ast.Assign) else [n.target]):
                            if isinstance(tg, ast.Attribute) and root_name(tg) == "self" and tg.attr in fields:
                                raise Unsupported(f"{qual}: attribute {tg.attr} is assigned after the translated prefix (line {n.lineno})")
            stmts_src = stmts_src[:k]
            kind = "L"
        body = self.stmts(stmts_src, cx, kind, end, 1 + (1 if is_proc else 0))
        if is_fproc:
            body = "  let eff_ : List PV := []\n" + body
        if is_proc:
            body = "  let eff_ : List PV := []\n" + body.replace("\n    ", "\n  ") if False else \
                "  let eff_ : List PV := []\n" + "\n".join(l[2:] if l.startswith("    ") else l for l in body.split("\n"))
        symbols = sorted(cx["symbols"])
        kept = [p for p in params if p not in opaque]
        binders = [(x, "PV") for x in selfparams]
        for p in kept:
            if p in objparams:
                binders += [(ident(f"{p}_{f}"), "PV") for f in self.classes[objparams[p]]["fields"]]
            elif p in listparams:
                binders.append((ident(p), "PV"))
            else:
                binders.append((ident(p), "PV"))
        binders += [(x, "PV") for x in symbols]
        # group consecutive binders of one type
        groups = []
        for name, ty in binders:
            if groups and groups[-1][1] == ty:
                groups[-1][0].append(name)
            else:
                groups.append(([name], ty))
        sig = " ".join(["(expf : Rat → Rat)"] + [f"({' '.join(ns)} : {ty})" for ns, ty in groups])
        rty = "PV" if kind == "V" else "List PV"
        self.out.append(f"/-- `{path}` : `{qual}` -/")
        self.out.append(f"def {lean_name} {sig} : {rty} :=\n{body}\n")
        if all(ty == "PV" for _, ty in binders):
            self.table.append((lean_name, len(binders), kind))
        elif [ty for _, ty in binders].count("List PV") == 1 and binders[-1][1] == "List PV":
            self.table.append((lean_name, -(len(binders) - 1), kind))     # the trailing arguments form the object
        info = FnInfo(lean_name, kept, defaults, kind, bool(symbols) or bool(opaque) or bool(selfparams))
        if is_init:
            info.extra = False
        if mutating:
            info.n_ret = 1 if status_first else 0

        info.objparams, info.listparams = objparams, listparams
        info.symbols, info.handles = symbols, handle_params
        return info, cx

    def emit_dispatch(self, classes, path):
        """`obj(*args)`, `isinstance(obj, Base)`, `hasattr / getattr / setattr` for merge-function objects
        `PV.obj "<class>" a b c` (attributes in sorted order, class-level string constants by lookup)"""
        self.dispatch_classes = list(classes)
        n_args = None
        rows, isrows, hasrows, getrows, setrows = [], [], [], [], []
        slots = ["s0", "s1", "s2"]
        for k in classes:
            fn = self.classes[k]["methods"]["__call__"]
            n = len(fn.args.args) - 1
            if n_args is None:
                n_args = n
            elif n != n_args:
                raise Unsupported(f"__call__ of {k} takes {n} arguments, others {n_args}")
            attrs = self.classes[k]["attrs"] if self.classes[k]["init_owner"] else []
            if len(attrs) > 3:
                raise Unsupported(f"class {k} has more than three attributes")
            # class-level constants, through the (single-inheritance) chain
            consts, kk = {}, k
            while kk in self.classes:
                for ck, cv in self.classes[kk].get("consts", {}).items():
                    consts.setdefault(ck, cv)
                kk = self.classes[kk]["bases"][0] if self.classes[kk]["bases"] else None
            self.dispatch_attrs |= set(attrs) | set(consts)
            pat = f'PV.obj "{k}" ' + " ".join(slots[i] if i < len(attrs) else "_" for i in range(3))
            call = " ".join([f"{k}_call", "expf"] + slots[:len(attrs)] + [f"a{i}" for i in range(n_args)])
            rows.append(f"  | {pat} => {call}")
            isrows.append(f'  | PV.obj "{k}" _ _ _ => PV.bool true')
            for i, at in enumerate(attrs):
                p3 = " ".join("v" if j == i else "_" for j in range(3))
                hasrows.append(f'  | PV.obj "{k}" _ _ _, "{at}" => PV.bool true')
                getrows.append(f'  | PV.obj "{k}" {p3}, "{at}" => v')
                full = " ".join(slots)
                upd = " ".join("v" if j == i else slots[j] for j in range(3))
                setrows.append(f'  | PV.obj "{k}" {full}, "{at}" => PV.obj "{k}" {upd}')
            for ck, cv in sorted(consts.items()):
                hasrows.append(f'  | PV.obj "{k}" _ _ _, "{ck}" => PV.bool true')
                getrows.append(f'  | PV.obj "{k}" _ _ _, "{ck}" => PV.str "{cv}"')
        args = " ".join(f"a{i}" for i in range(n_args))
        B = DISPATCH_BASE
        self.out.append(f"/-- `{path}` : calling a `{B}` object (class name and the attributes stored by `__init__`) -/")
        self.out.append(f"def {B}_call (expf : Rat → Rat) (obj : PV) ({args} : PV) : PV :=\n  match obj with\n"
                        + "\n".join(rows) + '\n  | PV.err e => PV.err e\n  | _ => PV.err "TypeError"\n')
        self.out.append(f"/-- `isinstance(x, {B})` for the translated subclasses -/")
        self.out.append(f"def {B}_isinstance (x : PV) : PV :=\n  match x with\n" + "\n".join(isrows)
                        + "\n  | PV.err e => PV.err e\n  | _ => PV.bool false\n")
        self.out.append(f"/-- `hasattr(x, name)` -/")
        self.out.append(f"def {B}_hasattr (x : PV) (name : String) : PV :=\n  match x, name with\n" + "\n".join(hasrows)
                        + "\n  | PV.err e, _ => PV.err e\n  | _, _ => PV.bool false\n")
        self.out.append(f"/-- `x.name` -/")
        self.out.append(f"def {B}_getattr (x : PV) (name : String) : PV :=\n  match x, name with\n" + "\n".join(getrows)
                        + '\n  | PV.err e, _ => PV.err e\n  | _, _ => PV.err "AttributeError"\n')
        self.out.append(f"/-- `x.name = v` on an instance attribute (value semantics: the updated object is returned) -/")
        self.out.append(f"def {B}_setattr (x : PV) (name : String) (v : PV) : PV :=\n  match x, name with\n" + "\n".join(setrows)
                        + '\n  | PV.err e, _ => PV.err e\n  | _, _ => PV.err "AttributeError"\n')

    def init_attrs(self, fn):
        attrs = []
        for n in ast.walk(fn):
            if isinstance(n, (ast.Assign, ast.AugAssign)):
                for t in (n.targets if isinstance(n, ast.Assign) else [n.target]):
                    f = flat(t)
                    if f and f.startswith("self.") and f.count(".") == 1 and t.attr not in attrs:
                        attrs.append(t.attr)
        return sorted(attrs)

    def module(self, repo, path, spec):
        tree = ast.parse((Path(repo) / path).read_text())
        top = {n.name: n for n in tree.body if isinstance(n, (ast.FunctionDef, ast.ClassDef))}
        # classes first (their constructors are used by functions)
        for cname in spec.get("classes", []):
            if cname not in top or not isinstance(top[cname], ast.ClassDef):
                raise Unsupported(f"class {cname} not found in {path}")
            cdef = top[cname]
            for dec in cdef.decorator_list:
                if flat(dec) not in ("dataclasses.dataclass", "dataclass"):
                    raise Unsupported(f"decorator @{src_of(dec)} on class {cname} (line {cdef.lineno})")
            bases = [b.id for b in cdef.bases if isinstance(b, ast.Name)]
            meths = {}
            for n in cdef.body:
                if isinstance(n, ast.FunctionDef):
                    is_setter = any(isinstance(d, ast.Attribute) and d.attr in ("setter", "deleter") for d in n.decorator_list)
                    if not is_setter:
                        meths.setdefault(n.name, n)
            c = {"bases": bases, "methods": meths, "init_owner": None, "attrs": [], "fields": None}
            if spec.get("dataclass"):
                c["fields"] = [n.target.id for n in cdef.body
                               if isinstance(n, ast.AnnAssign) and isinstance(n.target, ast.Name)]
            if spec.get("slots"):
                for n in cdef.body:
                    if isinstance(n, ast.Assign) and flat(n.targets[0]) == "__slots__" and isinstance(n.value, ast.Tuple):
                        c["fields"] = [e.value for e in n.value.elts]
                if c["fields"] is None:
                    raise Unsupported(f"class {cname} has no __slots__ tuple")
            if spec.get("fields"):
                c["fields"] = list(spec["fields"])
                c["explicit_fields"] = True
            c["partial_init"] = bool(spec.get("partial_init"))
            c["handles"] = list(spec.get("handles", []))
            c["handle_lists"] = list(spec.get("handle_lists", []))
            c["log_field"] = spec.get("log_field")
            c["self_inputs"] = list(spec.get("self_inputs", []))
            c["self_calls"] = dict(spec.get("self_calls", {}))
            c["super_calls"] = dict(spec.get("super_calls", {}))
            if c["log_field"]:
                c["fields"] = list(c["fields"]) + [c["log_field"]]
            c["consts"] = {n.targets[0].id: n.value.value for n in cdef.body
                           if isinstance(n, ast.Assign) and isinstance(n.targets[0], ast.Name)
                           and isinstance(n.value, ast.Constant) and isinstance(n.value.value, str)}
            for n in cdef.body:
                if isinstance(n, ast.AnnAssign) and isinstance(n.target, ast.Name) and isinstance(n.value, ast.Constant) \
                        and isinstance(n.value.value, str):
                    c["consts"][n.target.id] = n.value.value
            c["props"], c["mutators"] = {}, {}
            # resolve __init__ through the (single-inheritance) chain of translated classes
            k, owner = cname, None
            chain = {cname: c}
            while True:
                cc = chain.get(k) or self.classes.get(k)
                if cc is None:
                    break
                if "__init__" in cc["methods"]:
                    owner = k
                    break
                if not cc["bases"]:
                    break
                k = cc["bases"][0]
            c["init_owner"] = owner
            key = spec.get("alias", {}).get(cname, cname)      # a second class of the same name in another module
            self.classes[key] = c
            if key != cname:
                c["attrs"] = list(c["fields"])
            elif owner == cname:
                c["attrs"] = self.init_attrs(meths["__init__"])
            elif owner is not None:
                c["attrs"] = self.classes[owner]["attrs"]
            for m in spec.get("methods", []):
                if m in meths:
                    nm = m.strip("_")
                    info, cxm = self.emit_fn(meths[m], f"{key}_{nm}", path, f"{cname}.{m}", cls=key)
                    if m == "__init__":
                        c["init_info"] = info
                    if any(flat(d) == "property" for d in meths[m].decorator_list):
                        c["props"][m] = info.lean_name
                    elif cxm.get("mutating"):
                        c["mutators"][m] = info
                elif not (m == "__init__" or m == "__call__"):
                    raise Unsupported(f"method {cname}.{m} not found in {path}")

        if spec.get("dispatch"):
            self.emit_dispatch([k for k in spec["classes"] if "__call__" in self.classes[k]["methods"]], path)
        for outer_name, inner_name in spec.get("nested_functions", []):
            if outer_name not in top or not isinstance(top[outer_name], ast.FunctionDef):
                raise Unsupported(f"function {outer_name} not found in {path}")
            inner = [n for n in top[outer_name].body if isinstance(n, ast.FunctionDef) and n.name == inner_name]
            if len(inner) != 1:
                raise Unsupported(f"{outer_name}: nested function {inner_name} not found")
            # a closure over the enclosing scope would read free names: the translation of names fails on them ("free name")
            info, _ = self.emit_fn(inner[0], ident(inner_name), path, f"{outer_name}.<locals>.{inner_name}")
            self.fns[inner_name] = info
        for fname, params_, state_ in spec.get("loop_bodies", []):
            if fname not in top or not isinstance(top[fname], ast.FunctionDef):
                raise Unsupported(f"function {fname} not found in {path}")
            outer = top[fname]
            loops = [n for n in outer.body if isinstance(n, ast.While) and isinstance(n.test, ast.Constant) and n.test.value is True]
            if len(loops) != 1:
                raise Unsupported(f"{fname}: expected exactly one top-level `while True:` loop")
            synth = ast.FunctionDef(name=fname + "_loop", args=ast.arguments(posonlyargs=[], args=[ast.arg(arg=p_) for p_ in params_],
                                    kwonlyargs=[], kw_defaults=[], defaults=[]), body=list(loops[0].body), decorator_list=[],
                                    lineno=loops[0].lineno, col_offset=0)
            synth._state_vars = list(state_)
            synth._closures = [n.name for n in outer.body if isinstance(n, ast.FunctionDef)]
            for n in ast.walk(synth):
                if isinstance(n, (ast.Break, ast.Continue, ast.Return)):
                    raise Unsupported(f"{fname}: break / continue / return inside the loop body (line {n.lineno})")
            self.emit_fn(synth, ident(fname + "_loop"), path, f"{fname} (body of the `while True` loop)")
            # the values the state variables have when the loop is entered: the last top-level literal assignment before it
            inits = []
            before = outer.body[:outer.body.index(loops[0])]
            for v_ in state_:
                asg = [n for n in before if isinstance(n, ast.Assign) and len(n.targets) == 1
                       and isinstance(n.targets[0], ast.Name) and n.targets[0].id == v_]
                if not asg or not isinstance(asg[-1].value, ast.Constant):
                    raise Unsupported(f"{fname}: no literal initial value for {v_} before the loop")
                inits.append(self.const(asg[-1].value.value, asg[-1].value))
            self.out.append(f"/-- `{path}` : `{fname}`, the state variables on entry of the loop -/")
            self.out.append(f"def {ident(fname + '_loop_init')} : List PV := [" + ", ".join(inits) + "]\n")
            self.consts.append(ident(fname + "_loop_init"))
        for fname in spec.get("functions", []):
            if fname not in top or not isinstance(top[fname], ast.FunctionDef):
                raise Unsupported(f"function {fname} not found in {path}")
            info, _ = self.emit_fn(top[fname], ident(fname), path, fname)
            self.fns[fname] = info

    def run(self, repo):
        self.out = [
            "/-",
            "GENERATED by tools/py2lean.py from the Python sources of the repository — do not edit.",
            "Regenerated and compared on every run of the proof gate (harness/checklib.py).",
            "Sources: " + ", ".join(p for p, _ in SPEC),
            "-/",
            "import BBModel.PyNum",
            "",
            "set_option linter.unusedVariables false",
            "",
            "namespace BBGen",
            "open BB",
            "",
        ]
        for path, spec in SPEC:
            try:
                self.module(repo, path, spec)
            except Unsupported as u:
                raise Unsupported(f"{path}: {u}")
        self.out.append("/-- call a generated function by name (used by the line-protocol driver: the correspondence suite\n"
                        "runs every translated function and the real Python function on the same arguments) -/")
        self.out.append("def dispatch (expf : Rat → Rat) (fn : String) (args : List PV) : Option (List PV) :=")
        self.out.append("  match fn, args with")
        for name, ar, kind in self.table:
            vs = [f"a{i}" for i in range(abs(ar))]
            call = " ".join([name, "expf"] + vs + (["obj"] if ar < 0 else []))
            rhs = f"[{call}]" if kind == "V" else f"({call})"
            pat = f'[{", ".join(vs)}]' if ar >= 0 else " :: ".join(vs + ["obj"])
            self.out.append(f'  | "{name}", {pat} => some {rhs}')
        for name in self.consts:
            self.out.append(f'  | "{name}", [] => some {name}')
        self.out.append("  | _, _ => none")
        self.out.append("")
        self.out.append("end BBGen")
        return "\n".join(self.out) + "\n"


def main():
    ap = argparse.ArgumentParser()
    ap.add_argument("--repo", default="/repo")
    ap.add_argument("--out")
    a = ap.parse_args()
    try:
        text = Translator().run(a.repo)
    except (Unsupported, SyntaxError, OSError) as u:
        print(f"py2lean: cannot translate: {u}", file=sys.stderr)
        sys.exit(3)
    if a.out:
        p = Path(a.out)
        if not p.exists() or p.read_text() != text:
            p.parent.mkdir(parents=True, exist_ok=True)
            p.write_text(text)
    else:
        sys.stdout.write(text)


if __name__ == "__main__":
    main()
