#!/bin/bash
# confirm a seeded mutation in its scratch worktree: tests pass with it, demo fails with it and passes without it
# usage: confirm_mutation.sh <worktree> <k>
set -u
W=$1; K=$2
cd "$W" || exit 2
git checkout -q -- bblean
export PYTHONPATH=$W BITBIRCH_NO_EXTENSIONS=1
/venv/bin/python demo_$K.py >/dev/null 2>&1; CLEAN=$?
git apply mutation_$K.diff || { echo "APPLY-FAILED"; exit 2; }
/venv/bin/python demo_$K.py >/dev/null 2>&1; MUT=$?
T=$(/venv/bin/python -m pytest -q -p no:cacheprovider --timeout=900 --deselect tests/test_global_clustering.py --deselect tests/test_regression.py 2>&1 | tail -1)
git checkout -q -- bblean
echo "worktree=$W k=$K demo_clean_exit=$CLEAN demo_mutated_exit=$MUT tests: $T"
