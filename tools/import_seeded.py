#!/usr/bin/env python3
"""copy a confirmed seeded change from an agent's scratch worktree into /verif/seeded/<name>/"""
import json, shutil, sys
from pathlib import Path
src, k, name, prop, needs, caught, ran = sys.argv[1:8]
src = Path(src); dst = Path("/verif/seeded") / name
dst.mkdir(parents=True, exist_ok=True)
shutil.copy(src / f"mutation_{k}.diff", dst / "patch.diff")
shutil.copy(src / f"demo_{k}.py", dst / "demo.py")
shutil.copy(src / f"mutation_{k}.md", dst / "description.md")
meta = {"breaks_property": prop, "needs_to_manifest": needs, "confirmed": ran, "caught_by": json.loads(caught)}
(dst / "meta.json").write_text(json.dumps(meta, indent=1))
print("imported", dst)
