#!/bin/bash
# evaluate a candidate change WITHOUT touching /repo: scratch copy of /repo's working tree + patch, checks run against the copy
# usage: SEEDS="0 1 2" tools/seed_try.sh <patch.diff> <Cxx> [<Cyy> ...]
set -u
P=$(readlink -f "$1"); shift
W=$(mktemp -d /var/tmp/bbverif-try-XXXXXX)
trap 'rm -rf "$W"' EXIT
rsync -a --exclude .git --exclude __pycache__ /repo/ "$W/repo/"
( cd "$W/repo" && git apply "$P" ) || { echo "APPLY-FAILED"; exit 2; }
cd /verif
for c in "$@"; do
  for s in ${SEEDS:-0}; do
    out=$(BBLEAN_REPO="$W/repo" VERIF_OUT="$W/out" VERIF_SCRATCH="$W" VERIF_SEED=$s timeout 3000 ./check "$c" --tier ${TIER:-quick} --gen-only 2>&1 | grep -E "^VIOLATION|^OK|^INFRA" | head -2 | tr '\n' ' ')
    kind=""
    for r in $(echo "$out" | grep -o 'replay=[^ ]*' | cut -d= -f2); do kind="$kind $(python3 -c "import json,sys; d=json.load(open('$W/out/$r')); print(d.get('kind'), '|', d.get('signature', d.get('suite','')), d.get('theorems_broken_against_regenerated_model') or '')")"; done
    echo "$c seed=$s: $out :: $kind"
  done
done
