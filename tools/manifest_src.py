"""what MANIFEST.json claims, per property"""
HOOKS = {
    "guard": "MQCOMPLAB_BBLEAN_VERIF",
    "enable": "no source hooks: all observation is done by wrapping module attributes from the harness",
    "baseline_off_cmd": "cd /repo && /venv/bin/python -m pytest -ra -q -p no:cacheprovider --timeout=900 --continue-on-collection-errors",
    "source_commits": [],
    "add_only": True,
}
NOTES = ("Every check = proof gate (lake build, forbidden-token scan, #print axioms of the property theorems; for C01 C02 C03 C04 C05 C07 C08 C10 C11 C12 C15 C17 also "
         "the generated-model gate: re-translation of the Python sources by tools/py2lean.py and re-check of BBProofs/GenEq.lean) + correspondence "
         "(real bblean from /repo vs the compiled Lean model on the same histories) + direct oracle search; see DESIGN.md §2.2. "
         "Fix commits in /repo: see known_findings.json.")
TB = ("Trusted: Lean kernel (axioms propext, Classical.choice, Quot.sound only); the hand-written model's reading of the code, tied by "
      "differential correspondence on generated histories (not a proof about the Python code); CPython/NumPy float semantics. ")
GEN = (" TRANSLATOR TIE: tools/py2lean.py re-translates {src} of /repo's working tree into Lean on every run (lean/BBGen/Gen.lean; "
       "Python/NumPy arithmetic = the value algebra BBModel/PyNum.lean); BBProofs/GenEq.lean proves that the generated functions equal "
       "the hand-written model's, and the `{prop}_code_*` theorems restate the property for the generated code itself; if the regenerated "
       "text differs from the committed one, Gen/GenEq/the property file are re-checked in a scratch directory and a theorem that no "
       "longer closes is reported by name. S-GEN runs every generated function and the real Python function on the same arguments.")
TGEN = "Lean 4 theorem over executable model + Python-to-Lean translator (model regenerated from source each run) + differential correspondence"
NOT_CLAIMED: dict = {}
CLAIMS = {
    "C01": {
        "text": "Theorem C01_partition (Lean, by induction over the operation list and the tree height, for every valid routing/"
                "split/accept policy): after any well-formed history the reported clusters are a permutation of 0..numFitted-1; "
                "count, no-duplicate and membership corollaries. C01_labels / C01_labels_generic: with explicit labels on any fit "
                "(fit(X, reinsert_indices=...): arbitrary numbers, duplicates, truncating zip, malformed rows) the reported ids are, "
                "with multiplicity, exactly the labels of the rows inserted since the last reset (labelsOf, computed through the "
                "model's own step function); C01_labels_count, _nodup, _mem, _implicit (the implicit case is the special case), _fit, _reset. "
                "Tied to /repo by comparing model and real estimator after every operation of generated histories.",
        "note": TB + "Hypotheses: first row of each fit and refine data have F features (other rows may be malformed: the fit fails there and "
                "keeps the rows before it), branching factors >= 2. Not modelled: sparse input, global clustering, width change between "
                "fits with equal byte length.",
        "technique": "Lean 4 theorem over executable model + differential correspondence",
    },
    "C02": {
        "text": "Theorem C02_exact: every reported cluster (sorted or leaf order) satisfies Exact D: count = number of labels, per-bit sums "
                "= column sums of exactly those members, centroid = majority vote with ties set, width = narrowest holding the count; "
                "C02_no_wrap_merge / _update: width-limited NumPy arithmetic equals unbounded arithmetic on exact summaries at every width "
                "(255/256, 65535/65536, 2^32-1/2^32); C02_majority, C02_aligned, C02_narrowest. Correspondence compares stored sums, counts, "
                "dtypes and centroids of every leaf sub-cluster with the model after every operation."
                + GEN.format(src="utils.min_safe_uint, _py_similarity.centroid_from_sum and the _BFSubcluster methods of bitbirch.py (n_samples, linear_sum, replace_/add_to_n_samples_and_linear_sum, update, merge_subcluster; theorems C02_code_update, C02_code_merge in BBProofs/GenEq2.lean)", prop="C02"),
        "note": TB + "Hypothesis: the history is consistent with a labelling D (fit rows are what D says, refine gets the fitted rows), reset-free "
                "segment. Counts >= 2^64 (where min_safe_uint raises) are modelled as a rejected merge; unreachable. The float comparison "
                "`ls >= n*0.5` is modelled as 2k >= n (exact for n < 2^53).",
        "technique": TGEN,
    },
    "C03": {
        "text": "Theorem C03_threshold: every reported cluster with >= 2 members satisfies stat(criterion) >= threshold for a configuration "
                "in force at some insertion of the history (inForce), where stat is the library's own float formula (iSIM / radius "
                "complement, transcribed with its rounding points); C03_never: with never-merge in force every cluster is a singleton; "
                "C03_accept_sound. The oracle recomputes the statistic with bblean's functions from the input rows."
                + GEN.format(src="the six __call__ bodies of _merges.py and get_merge_accept_fn", prop="C03"),
        "note": TB + "The bound is about the library's computed float statistic (C11 relates it to the exact rational). inForce lists "
                "configurations since the start of the history, not only since the last reset.",
        "technique": TGEN,
    },
    "C09": {
        "text": "Theorems C09_recluster / C09_refine: from every reachable state, each cluster (for refine: each cluster outside the n "
                "largest in report order) is contained in one cluster after the operation, for all iteration counts, increments, shuffles, "
                "n_largest; C09_units: the general merge-closure fact (also the basis for the multi-round rounds). Oracle: containment "
                "check between consecutive reports on the real estimator.",
        "note": TB + "The multi-round clause of C09 is covered by C09_units only at the level of one batch re-insertion; the round-file protocol "
                "is part of C05/C06 (not claimed yet).",
        "technique": "Lean 4 theorem over executable model + differential correspondence",
    },
    "C10": {
        "text": "Theorems over the transcription of the six accept functions: C10_mono_thr (monotone in the threshold), C10_accept_sound "
                "(acceptance implies statistic >= threshold), C10_radius_iff / C10_diameter_iff, C10_singleton, C10_tol_iff, "
                "C10_slack_nonneg / _mono / _zero, C10_mono_tol, C10_legacy, C10_never, C10_dispatch. Correspondence: the real accept "
                "objects called twice each in shuffled order across instances vs the (pure) model; laws re-evaluated on the real functions."
                + GEN.format(src="_merges.py (six __call__ bodies, the __init__ methods, get_merge_accept_fn) with jt_isim_from_sum / jt_isim_radius_compl_from_sum", prop="C10"),
        "note": TB + "np.exp is a parameter (E n = exp(-1e-3 n)) assumed antitone with off = E 1000; both are checked on n = 0..6001. "
                "Statistics are NaN-free because new_n >= 2 in every merge.",
        "technique": TGEN,
    },
    "C11": {
        "text": "C11_exact: jt_isim_from_sum (transcribed with its uint64 wrap-around and float rounding points) equals the correctly "
                "rounded exact rational for n*sum(k) < 2^52; C11_ulp / C11_ulp_63: for n*sum(k) < 2^64 it is within 18 * 2^-53 (relative) of "
                "the exact rational, and exactly 0 when that is 0 (C11_ulp_zero); C11_range_wide; C11_gt_one: the kernel-checked witness that "
                "bit-exactness and `<= 1` fail above 2^52 (identical fingerprints, n = 77490642, give 1 + 2^-52; reproduced on the real code); "
                "C11_no_wrap: no uint64 intermediate wraps below 2^64; C11_empty, C11_pair (two fingerprints: Tanimoto), C11_perm_rows / _cols "
                "at every magnitude, C11_wrappers, C11_compl, C11_range, C11_defined. Correspondence exhaustive for n <= 5 (6), width <= 3 "
                "(4), random up to n*sum(k) < 2^63, all wrappers packed/unpacked."
                + GEN.format(src="_py_similarity.jt_isim_from_sum and similarity.jt_isim_radius_compl_from_sum / _radius_from_sum / _diameter_from_sum", prop="C11"),
        "note": TB + "'Equals the exact rational' is read as float equality with the correctly rounded value where that holds (< 2^52) and as the "
                "proved relative error bound above (plain equality is false there: C11_gt_one). Whichever implementation the import switch "
                "selects: only the NumPy fallback exists in this sandbox (C13 ties the kernels).",
        "technique": TGEN,
    },
    "C12": {
        "text": "C12_jt (packed Tanimoto = rnd(|A and B| / |A or B|) for non-empty union), C12_jt_empty, C12_jt_range, C12_symm, C12_matrix, "
                "C12_word_byte (uint64-view popcount = byte popcount), C12_packed, C12_unpack_pack / C12_pack_unpack for every feature "
                "count, C12_centroid (majority, ties set), C12_medoid (valid index minimising complementary similarity), C12_dissim "
                "(valid indices, similarities to exactly those rows). Correspondence exhaustive for widths <= 4 (6) bits over all pairs, "
                "random widths 1..4096, misaligned buffers."
                + GEN.format(src="_py_similarity.centroid_from_sum", prop="C12"),
        "note": TB + "Memory alignment is not expressible in the model (the word view is alignment-free there): exercised by the harness only. "
                "np.packbits / unpackbits / bitwise_count are trusted to be what the model's pack/unpack/popcount transcribe (tied by correspondence).",
        "technique": TGEN,
    },
    "C20": {
        "text": "C20_reader (for every sample sequence and every interleaving of writer file effects and reader steps, a completed read "
                "returns no value or a complete value the writer wrote; never an error, never a partial number), C20_reader_monotone, "
                "C20_monotone (the published peak never decreases, never disappears), C20_writes_increasing; C20_unfixed_witness(_wrong): "
                "the truncate-in-place protocol of the pinned code does fail. Invariant proof over an inode-level file-system model. "
                "Correspondence: real monitor loop and real reader as gated threads on real files, all merges for 1-3 samples x up to two readers."
                + GEN.format(src="the body of the `while True:` loop of _memory.monitor_rss_process and the initial maximum (file effects open / write / "
                                 "flush / fsync / close / os.replace recorded as tokens; total_rss(), the clock and _BYTES_TO_GIB are inputs; theorems "
                                 "C20_code_writer: iterated over any finite sample sequence its effects on max-rss.txt / max-rss.txt.tmp ARE the model's "
                                 "writerOps .rename, C20_code_reader: hence C20_reader holds for the code's writer, C20_code_keep; BBProofs/GenEq7.lean) "
                                 "and the reader _memory.get_peak_memory_gib (file.exists() and the text read are inputs, float(text.strip()) = "
                                 "PV.floatOf; theorem C20_code_reader_steps: the model reader's four steps in its order with its outcomes; GenEq10.lean)", prop="C20"),
        "note": TB + "PARTIAL: atomicity of rename(2), of a single small write(2) and of open(O_TRUNC) are assumptions about the kernel; the model "
                "conservatively also allows a partially written temporary file. 'Monitoring on/off does not change clustering output' is "
                "exercised by the CLI suite (C15), not proved.",
        "technique": TGEN + " (gated-thread schedule enumeration)",
    },
    "C07": {
        "text": "The model with refPolicy is the executable specification; C07_route (descent to the most similar cached centroid, first "
                "on ties), C07_descend, C07_leaf (merge iff accepted, else new cluster), C07_accept, C07_seeds, C07_mask (entry moves iff "
                "it is seed 1 or strictly closer to it), C07_split_nonempty (both halves non-empty for any entries), C07_valid state that "
                "it has the clauses of the property. Equality of the code with it: correspondence on sorted AND leaf-order reports after "
                "every operation; three-way differential with the legacy uint8/int64 variants."
                + GEN.format(src="_BFSubcluster.merge_subcluster of bitbirch.py (the leaf step: merged iff the criterion accepts; theorem C07_code_leaf) and the whole insertion step _BFNode.insert_bf_subcluster (sub-clusters as handles; np.argmax of the similarities, closest.child, the results of merge_subcluster / the recursive call / _split_node are inputs and the calls are logged; theorems C07_code_insert_empty / _leaf / _inner: the five cases of the algorithm as equalities of flag, entry list, centroid cache and call log, C07_code_leaf_conforms: flag and entry count = the model's insertLeaf; BBProofs/GenEq13.lean)", prop="C07"),
        "note": TB + "PARTIAL: that the code equals the specification is differential (generated histories) for the routing kernel and _split_node (seed search, redistribution), proved for the insertion step's case structure given their results; the legacy "
                "implementations are not modelled (three-way differential only, cases where they raise are dropped and counted).",
        "technique": TGEN,
    },
    "C08": {
        "text": "Theorem C08_wf: along every history consistent with a labelling D, at every node of the tree: 1 <= #entries <= node "
                "capacity, capacity >= 2; every inner entry's count, sums and labels equal the totals of the node beneath it (TrackOK); "
                "every search cache equals its entries' centroids; every entry at every level is exact and kept in the narrowest width; "
                "the leaf chain lists exactly the leaves of the tree once each and reading through it yields exactly those leaves. "
                "C08_balanced: all leaves at the same depth (height-indexed type); C08_step: preserved by every single insertion. "
                "Correspondence compares the FULL private structure (entries, caches, dtypes, capacities, chain) after every operation "
                "and, for every fourth history, after every single insertion."
                + GEN.format(src="the _BFSubcluster methods of bitbirch.py (update and what it calls; theorem C08_code_update_width) and _BFNode.append_subcluster / update_split_subclusters / packed_centroids (sub-clusters as handles, buffer rows as centroid tokens; theorems C08_code_append_aligned, C08_code_split_aligned: the per-node centroid cache stays the list of the entries' centroids, by the list expressions of the model's insertion; BBProofs/GenEq8.lean)", prop="C08"),
        "note": TB + "Per-node capacity (a split sibling inherits the old node's capacity, a new root takes the current branching_factor): "
                "(a) is per node. This is the one check that reads private attributes (_root, _subclusters, _packed_centroids_buf, "
                "_buffer.dtype, _next_leaf); a rename breaks the tie, not the property. Beyond 2^64 members the model uses an unbounded "
                "counter where the code raises ValueError.",
        "technique": TGEN,
    },
    "C04": {
        "text": "C04_chunking (from every reachable state, one fit of xs ++ ys equals two consecutive fits, any cut), C04_packed (unpack . pack "
                "= id for every feature count), C04_pages / _disjoint / _none (the page-release counter machine releases only whole "
                "steps inside the mapped file and behind the read cursor, never twice). Correspondence: every representation x dtype x "
                "chunking of the same rows against one model run, a fresh subprocess, and recorded madvise calls vs the model machine."
                + GEN.format(src="_memory._ArrayMemPagesManager (from_bb_input, should_release_curr_page, release_curr_page_and_update_addr)", prop="C04"),
        "note": TB + "PARTIAL: determinism across runs/processes, NumPy's memmap offset conventions and the kernel's madvise are runtime behaviour "
                "the model cannot exhibit (exercised, not proved). Integer dtypes are a representation of the harness; the model sees bits.",
        "technique": TGEN,
    },
    "C17": {
        "text": "C17_accept_iff (constructor and set_merge accept exactly the same criterion/tolerance arguments, names and objects), "
                "C17_same_fn, C17_frame (set_merge changes exactly what it is given; a chosen tolerance survives), C17_atomic (a failing "
                "set_merge changes nothing), C17_reset / C17_reset_fresh (reset = freshly constructed estimator with the same "
                "configuration), C17_ctor. Correspondence: configuration streams (constructor with names/objects/None x tolerance, "
                "set_merge with every argument subset, setters, reset) compared on criterion/tolerance/threshold/branching factor and "
                "clustering after every call; oracle re-checks symmetry, frame and atomicity on the real objects."
                + GEN.format(src="the configuration part of BitBirch in bitbirch.py (__init__ up to the first statement that does not concern threshold / branching_factor / _merge_accept_fn, the tolerance and merge_criterion properties, set_merge) with get_merge_accept_fn; theorems gen_init, gen_set_merge in BBProofs/GenEq4.lean; and reset: C17_code_reset_frame", prop="C17"),
        "note": TB + "Models the repaired logic (fix b75235c); the tolerance lives in the merge-function object, so switching to a criterion "
                "without tolerance and back yields the default. Not modelled: one merge-function OBJECT shared by two estimators (aliasing), "
                "the discouraged global set_merge.",
        "technique": TGEN,
    },
    "C18": {
        "text": "C18_assign (clusters partitioning 0..n-1 => the assignment vector gives every fingerprint the 1-based rank of its cluster), "
                "C18_refuse / C18_refuse_index / C18_no_unlabeled (refused rather than returned with unlabeled entries), C18_order (size-sorted, "
                "largest first, stable), C18_labels (on every reachable state the wrapper's labels are exactly these ranks, never refused), "
                "C18_predict (label of a nearest centroid, first on ties), C18_transform, C18_dist_range, C18_centers_aligned. "
                "Correspondence: real sklearn wrappers vs model on labels_, centres, predict, transform (bit-exact), dump_assignments."
                + GEN.format(src="fit / partial_fit / fit_predict of bblean.sklearn.BitBirch (super().fit and get_assignments as logged calls whose results are "
                                 "inputs, compute_labels and the stacked centroids as inputs; theorems C18_code_fit_predict_fresh: for both values of "
                                 "compute_labels exactly one get_assignments call follows the base-class fit of this call and its result is what is returned "
                                 "and stored in labels_, C18_code_fit, C18_code_partial_fit; BBProofs/GenEq14.lean)", prop="C18"),
        "note": TB + "scikit-learn's pairwise_distances (boolean Jaccard = one float64 division, 0 for two empty rows) and "
                "pairwise_distances_argmin (first minimum) are external calls whose assumed behaviour is transcribed in jaccardDist / "
                "argminFirst and tied by correspondence only. Queries without empty rows, as the property states.",
        "technique": TGEN,
    },
    "C05": {
        "text": "C05_partition (every successful workflow: the final clusters are a permutation of 0..N-1, N = total rows in input-file "
                "order), C05_centroids / C05_centroid_is_majority (saved centroids aligned with the clusters and equal to the majority vote "
                "of each cluster's members), C05_exact, C05_pairing / C05_prevPairs (sorted buffer listing zipped with sorted index listing "
                "pairs every buffer file with its own member list), C05_handover, C05_zfill_*; for every valid policy family and every "
                "initial directory. Correspondence: every round-* file, clusters and centroids of the real workflow vs the model."
                + GEN.format(src="_BFSubcluster.__init__ of bitbirch.py (the re-import of a saved buffer with its member-list check; theorem gen_subcluster_init_buffer in BBProofs/GenEq6.lean) and multiround._get_files_range_tuples (a for-enumerate loop with a running index, translated as a fold; theorem C05_code_file_ranges: the index ranges handed to the first-round tasks are the model's fileTuples; BBProofs/GenEq12.lean)", prop="C05"),
        "note": TB + "PARTIAL: .npy streaming and pickle encodings are trusted to round-trip (file contents are model values; covered by the "
                "file-by-file correspondence only). max_fps / max_files debug options and save_tree pickles are outside the model. "
                "Round-1 trees take the default tolerance (the code does not pass `tolerance` to them): modelled as is.",
        "technique": TGEN,
    },
    "C06": {
        "text": "C06_names_inj (buffer/index names determine round, label, width; never collide), C06_disjoint (tasks of a round write "
                "pairwise disjoint names), C06_write_comm / C06_commute (executing the tasks of a round in any order gives the same "
                "directory), C06_sorted / C06_prevPairs (the next round's input depends only on the SET of files), C06_sched (the result of "
                "the whole workflow is the same for every schedule). Correspondence: real workflow under random in-process task orders, "
                "real fork/forkserver pools with 2-5 processes and max-tasks 1/2/None, serial execution, shuffled directory listings."
                + GEN.format(src="multiround._get_files_range_tuples (for i, file in enumerate(files) with a running index, translated as a fold over the "
                                 "list; the row count of a file is an input; theorems C06_code_task_tuples / C06_code_labels: the label of a first-round task "
                                 "is the zero-padded POSITION of its file and its range starts where the previous one ends = the model's fileTuples; "
                                 "BBProofs/GenEq12.lean)", prop="C06"),
        "note": TB + "PARTIAL: OS scheduling, process start methods and pickling of task objects are exercised, not modelled; the model's task "
                "reads the directory as it was at the start of its round (tasks never read each other's output: C06_disjoint + names by round).",
        "technique": TGEN + " (schedule-permutation differential)",
    },
    "C14": {
        "text": "C14_fresh (for EVERY initial directory content the run's round and final files equal those of a run in an empty directory, "
                "and foreign files are untouched: leftovers of any earlier run / crash prefix are never consumed), C14_cleanup (no round "
                "file after a successful run with cleanup), C14_commit_last (in the trace of directory states after the initial purge and "
                "after every single write, clusters.pkl is absent from every state before its own write: an interrupted run leaves no "
                "final cluster file), C14_purge_first, C14_trace_result. Correspondence/oracle: crash injected at every file effect, stale "
                "directories, re-runs with same/changed/fewer inputs compared with fresh-directory runs."
                + GEN.format(src="multiround._pickle_dump_atomic (open / pickle.dump / close / os.replace as effect records; theorems C14_code_dump_effects, "
                                 "C14_code_dump_atomic: an observer of the final name sees the old content before the last effect and the complete object "
                                 "after it - the single atomic write of the model; BBProofs/GenEq9.lean)", prop="C14"),
        "note": TB + "PARTIAL: a crash falls between two Python-level file effects or inside one (leaving a prefix); power loss, page-cache "
                "and directory-entry durability are not modelled; purge and cleanup are single trace steps. Models the repaired protocol "
                "(fix b141a19).",
        "technique": TGEN + " (exhaustive crash-point injection)",
    },
    "C13": {
        "text": "Extensional equality, on the common domain, of a Lean transcription of each C++ kernel (aligned flag an input, uint32/uint64 "
                "wrap-around explicit) with the NumPy-side model: C13_popcount(_wrap), C13_unpack(_some), C13_centroid('/_unpacked), C13_isim "
                "(no hypothesis), C13_arrvec(_mixed), C13_dissim(_none/_mixed); and the domain restrictions as theorems: C13_unpack_rejects, "
                "C13_unpack_undefined, C13_centroid_undefined, C13_arrvec_rejects, C13_dissim_rejects (the compiled kernels throw or read "
                "out of bounds for n_features % 8 != 0). Tie: compiled kernels vs fallback bit for bit, vs the transcription, and end to end.",
        "note": TB + "PARTIAL: the compiler, -O2 floating-point contraction (x86-64 SSE2: none), hardware popcnt and the fidelity of the ~90-line "
                "pybind11 stand-in are trusted; the real pybind11 argument conversion (forcecast, non-contiguous inputs) and the real "
                "import-time switch are not exercised (no pybind11, no built extension in this sandbox). Threshold n*0.5 is modelled as "
                "2k >= n (exact below 2^53).",
        "technique": "Lean 4 equivalence proofs between two transcriptions + out-of-tree compilation and ctypes differential",
    },
    "C16": {
        "text": "C16_concat: for every fingerprint generator fp (None = invalid SMILES), SMILES list and batch size >= 1, the part files "
                "of `bb fps-from-smiles` in list order and in sorted-name order (zero-padded names, C16_digits: the CLI's own digit count is "
                "wide enough) and the single shared-memory file all hold exactly the fingerprints of the valid SMILES in input order "
                "(= fps_from_smiles); C16_concat_any_order: for every order in which the pool runs the range tasks; C16_invalid: the "
                "reported indices are exactly the invalid positions, ascending; C16_batches (batches/ranges are consecutive and cover the "
                "input); C16_split_merge; C16_shuffle (multiset of rows); C16_fileseq / _rows / _err: indexing a file sequence by a sorted "
                "index list (repeats, empty, empty files) = indexing the concatenation, otherwise ValueError. Correspondence: real commands "
                "and real indexer vs the model's part names / sizes / indices / rows; oracle vs the in-process API."
                + GEN.format(src="parse_num_per_batch, the function nested in cli._fps_from_smiles that sizes the batches and pads the part numbers "
                                 "(theorems C16_code_num_per_batch: = the model's numPerBatch below 2^53 SMILES - ceil_truediv proves that the code's "
                                 "float division followed by math.ceil is the exact ceiling there -, C16_code_digits, C16_code_exclusive; BBProofs/GenEq11.lean)", prop="C16"),
        "note": TB + "PARTIAL: fps-info (header parsing, console output) is checked by the suite only (no theorem: it has no logic beyond two "
                "predicates on shape and dtype). RDKit is a parameter (fp). Interleaving of single writes into shared memory is not "
                "modelled: each position is owned by one task. KNOWN FINDING (known_findings.json): multi-part --skip-invalid reports "
                "counts, not indices. Fixed defects: -m with several processes, fps-info on one file, fps-info on non-integer dtype.",
        "technique": TGEN + " (real commands)",
    },
    "C19": {
        "text": "C19_analysis_select (reported clusters = longest prefix with <= top clusters of size >= min_size), C19_analysis (sizes = "
                "member-list lengths, iSIM = iSIM of the members' rows in any id order, total / clusters / singletons / above-size "
                "counts), C19_provider / _files / _files_packed (array, file and file-sequence providers with the same concatenation give "
                "the same analysis), C19_packed / C19_packed_indices / C19_packed_jt (packed = unpacked for every F, for the analysis and "
                "the three indices), C19_perm_rows (all three indices invariant under row permutations), C19_perm_clusters (CHI and DBI "
                "invariant under cluster permutations; Dunn when no cluster is a singleton); C19_dunn_nan_witness / C19_dunn_nan_first: "
                "with a singleton cluster Dunn DOES depend on cluster order. Correspondence and oracles: real cluster_analysis over all "
                "providers, real indices under permutations, bb summary.",
        "note": TB + "PARTIAL: the indices are modelled as exact rational combinations of the float-valued similarities (the property allows "
                "summation-order differences; compared to rel 1e-9); zero divisions (wcss = 0, equal centroids) are total in the model and "
                "excluded from the comparison; assume_sorted=False is sorted by the harness; smiles / scaffold analysis and medoid centrals "
                "not modelled. KNOWN FINDING (known_findings.json): Dunn depends on cluster order when singleton clusters are present.",
        "technique": "Lean 4 theorems over executable model + differential correspondence + permutation oracles",
    },
    "C15": {
        "text": "C15_equals_api / _state / _ref (the command IS the constructor call followed by the plan, executed by the same step "
                "function as the API), C15_plan_shape (the plan: one fit per file in sorted order; iff refinement or reclustering is requested, "
                "set_merge(refine criterion, tolerance, threshold (+) change) then refine rounds on the concatenation of all files with "
                "initial_mol 0, then recluster rounds; delete_internal_nodes), C15_normRounds, C15_total_run (for every option combination with "
                "known criterion names, bf >= 2 and non-empty well-formed files the command completes), C15_numbering (the clusters are a "
                "partition of 0..N-1 and label i is row i of the concatenation in sorted-file order: every reported summary is Exact for that "
                "labelling), C15_centroids, C15_outdir / _run / _refused (non-empty directory: refused and untouched without overwrite; with "
                "overwrite the listing afterwards is exactly the new outputs, no duplicates, centroid/tree files iff requested), "
                "C15_multi_equals_api, C15_total_multi, C15_multi_partition. Correspondence: the real commands vs the API following the "
                "model's plan vs the model."
                + GEN.format(src="cli._validate_output_dir (the directory as an opaque parameter: exists / is_dir / any(iterdir) are inputs, rmtree and mkdir recorded effects; theorem gen_validate in BBProofs/GenEq5.lean)", prop="C15"),
        "note": TB + "PARTIAL: typer option parsing, pickle/.npy encoding, symlinks/copies, the monitor daemon and console output are exercised by "
                "the suite, not modelled; --bb-variant, --max-fps, --max-files (hidden debug options) are out of scope. 'Monitor on/off does not "
                "change the clusters' is exercised (subprocess runs with the monitor on are compared with the API). Fixed defects: "
                "--overwrite removed the directory itself, --save-tree called a missing method (known_findings.json).",
        "technique": TGEN,
    },
}
