"""what MANIFEST.json claims, per property"""
HOOKS = {
    "guard": "MQCOMPLAB_BBLEAN_VERIF",
    "enable": "no source hooks: all observation is done by wrapping module attributes from the harness",
    "baseline_off_cmd": "cd /repo && /venv/bin/python -m pytest -ra -q -p no:cacheprovider --timeout=900 --continue-on-collection-errors",
    "source_commits": [],
    "add_only": True,
}
NOTES = ("Every check = proof gate (lake build, forbidden-token scan, #print axioms of the property theorems) + correspondence "
         "(real bblean from /repo vs the compiled Lean model on the same histories) + direct oracle search; see DESIGN.md §2.2. "
         "Fix commits in /repo: see known_findings.json.")
TB = ("Trusted: Lean kernel (axioms propext, Classical.choice, Quot.sound only); the hand-written model's reading of the code, tied by "
      "differential correspondence on generated histories (not a proof about the Python code); CPython/NumPy float semantics. ")
NOT_CLAIMED: dict = {}
CLAIMS = {
    "C01": {
        "text": "Theorem C01_partition (Lean, by induction over the operation list and the tree height, for every valid routing/"
                "split/accept policy): after any well-formed history the reported clusters are a permutation of 0..numFitted-1; "
                "count, no-duplicate and membership corollaries. Tied to /repo by comparing model and real estimator after every "
                "operation of generated histories.",
        "note": TB + "Hypotheses: first row of each fit and refine data have F features (other rows may be malformed), branching factors >= 2, "
                "no explicit reinsert labels. Not modelled: sparse input, global clustering, width change between fits with equal byte length.",
        "technique": "Lean 4 theorem over executable model + differential correspondence",
    },
    "C02": {
        "text": "Theorem C02_exact: every reported cluster (sorted or leaf order) satisfies Exact D: count = number of labels, per-bit sums "
                "= column sums of exactly those members, centroid = majority vote with ties set, width = narrowest holding the count; "
                "C02_no_wrap_merge / _update: width-limited NumPy arithmetic equals unbounded arithmetic on exact summaries at every width "
                "(255/256, 65535/65536, 2^32-1/2^32); C02_majority, C02_aligned, C02_narrowest. Correspondence compares stored sums, counts, "
                "dtypes and centroids of every leaf sub-cluster with the model after every operation.",
        "note": TB + "Hypothesis: the history is consistent with a labelling D (fit rows are what D says, refine gets the fitted rows), reset-free "
                "segment. Counts >= 2^64 (where min_safe_uint raises) are modelled as a rejected merge; unreachable. The float comparison "
                "`ls >= n*0.5` is modelled as 2k >= n (exact for n < 2^53).",
        "technique": "Lean 4 theorem over executable model + differential correspondence",
    },
    "C03": {
        "text": "Theorem C03_threshold: every reported cluster with >= 2 members satisfies stat(criterion) >= threshold for a configuration "
                "in force at some insertion of the history (inForce), where stat is the library's own float formula (iSIM / radius "
                "complement, transcribed with its rounding points); C03_never: with never-merge in force every cluster is a singleton; "
                "C03_accept_sound. The oracle recomputes the statistic with bblean's functions from the input rows.",
        "note": TB + "The bound is about the library's computed float statistic (C11 relates it to the exact rational). inForce lists "
                "configurations since the start of the history, not only since the last reset.",
        "technique": "Lean 4 theorem over executable model + differential correspondence",
    },
    "C09": {
        "text": "Theorems C09_recluster / C09_refine: from every reachable state, each cluster (for refine: each cluster outside the n "
                "largest in report order) is contained in one cluster after the operation, for all iteration counts, increments, shuffles, "
                "n_largest; C09_units: the general merge-closure fact (also the basis for the multi-round rounds). Oracle: containment "
                "check between consecutive reports on the real estimator.",
        "note": TB + "The multi-round clause of C09 is covered by C09_units only at the level of one batch re-insertion; the round-file protocol "
                "is part of C05/C06 (not claimed yet).",
        "technique": "Lean 4 theorem over executable model + differential correspondence",
    },
}
