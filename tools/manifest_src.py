"""what MANIFEST.json claims, per property"""
HOOKS = {
    "guard": "MQCOMPLAB_BBLEAN_VERIF",
    "enable": "no source hooks: all observation is done by wrapping module attributes from the harness",
    "baseline_off_cmd": "cd /repo && /venv/bin/python -m pytest -ra -q -p no:cacheprovider --timeout=900 --continue-on-collection-errors",
    "source_commits": [],
    "add_only": True,
}
NOTES = ("Every check = proof gate (lake build, forbidden-token scan, #print axioms of the property theorems) + correspondence "
         "(real bblean from /repo vs the compiled Lean model on the same histories) + direct oracle search; see DESIGN.md §2.2. "
         "Fix commits in /repo: see known_findings.json.")
TB = ("Trusted: Lean kernel (axioms propext, Classical.choice, Quot.sound only); the hand-written model's reading of the code, tied by "
      "differential correspondence on generated histories (not a proof about the Python code); CPython/NumPy float semantics. ")
NOT_CLAIMED: dict = {}
CLAIMS = {
    "C01": {
        "text": "Theorem C01_partition (Lean, by induction over the operation list and the tree height, for every valid routing/"
                "split/accept policy): after any well-formed history the reported clusters are a permutation of 0..numFitted-1; "
                "count, no-duplicate and membership corollaries. Tied to /repo by comparing model and real estimator after every "
                "operation of generated histories.",
        "note": TB + "Hypotheses: first row of each fit and refine data have F features (other rows may be malformed), branching factors >= 2, "
                "no explicit reinsert labels. Not modelled: sparse input, global clustering, width change between fits with equal byte length.",
        "technique": "Lean 4 theorem over executable model + differential correspondence",
    },
}
