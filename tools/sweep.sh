#!/bin/bash
# run every registered check on the current tree for the given seeds (clean-tree false-alarm sweep)
# usage: tools/sweep.sh [--skip-proof] <seed> [<seed> ...]
cd /verif
EXTRA=""
if [ "$1" = "--skip-proof" ]; then EXTRA="--skip-proof"; shift; fi
for s in "$@"; do
  for p in C01 C02 C03 C04 C05 C06 C07 C08 C09 C10 C11 C12 C13 C14 C15 C16 C17 C18 C19 C20; do
    out=$(VERIF_SEED=$s timeout 3000 ./check $p --tier ${TIER:-quick} $EXTRA 2>&1 | grep -E "^VIOLATION|^OK|^INFRA" | head -3 | tr '\n' ' ')
    echo "seed=$s $p: $out"
  done
done
