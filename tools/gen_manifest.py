#!/usr/bin/env python3
"""Regenerate MANIFEST.json from tools/manifest_src.py (claims) + properties.jsonl."""
import json
import sys
from pathlib import Path

ROOT = Path(__file__).resolve().parent.parent
sys.path.insert(0, str(ROOT / "tools"))
import manifest_src as M  # noqa: E402

props = [json.loads(l) for l in (ROOT / "properties.jsonl").read_text().splitlines() if l.strip()]
checks = []
na = []
for p in props:
    pid = p["id"]
    c = M.CLAIMS.get(pid)
    if c is None:
        na.append({"property_id": pid, "reason": M.NOT_CLAIMED.get(pid, "not claimed yet: theorem file and correspondence suite still being built (DESIGN.md §12)")})
        continue
    checks.append({
        "property_id": pid,
        "quick_cmd": f"./check {pid} --tier quick",
        "thorough_cmd": f"./check {pid} --tier thorough",
        "evidence_file": f"evidence/{pid}.json",
        "replay_cmd_template": f"./check {pid} --replay {{path}}",
        "engine": "lean-model+harness",
        "level_claimed": {"category": "proof", "text": c["text"], "design_ref": c.get("design_ref", "DESIGN.md §6 " + pid)},
        "level_note": c["note"],
        "technique": c["technique"],
    })
m = {
    "version": 1,
    "setup_cmd": "cd lean && lake build",
    "hooks": M.HOOKS,
    "engines": [
        {"name": "lean-model", "path": "lean/", "serves_properties": sorted(M.CLAIMS),
         "kind_free_text": "Lean 4 executable model (BBModel), helper lemmas (BBProofs), property theorems (BBProps/Cxx.lean), native line-protocol driver (bbdriver)"},
        {"name": "harness", "path": "harness/", "serves_properties": sorted(M.CLAIMS),
         "kind_free_text": "Python correspondence harness: runs the real bblean from /repo and the model driver on the same histories and diffs canonical outputs; direct oracles for the failing-input search"},
    ],
    "checks": checks,
    "notes": M.NOTES,
    "not_applicable": na,
}
(ROOT / "MANIFEST.json").write_text(json.dumps(m, indent=1) + "\n")
print(f"{len(checks)} checks, {len(na)} not claimed")
