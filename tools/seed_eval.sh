#!/bin/bash
# apply a seeded change to /repo, run the given checks (quick tier), undo it straight afterwards
# usage: seed_eval.sh <patch.diff> <Cxx> [<Cyy> ...]
set -u
P=$1; shift
cd /verif
if ! git -C /repo diff --quiet; then echo "REPO-NOT-CLEAN"; exit 2; fi
git -C /repo apply "$P" || { echo "APPLY-FAILED"; exit 2; }
trap 'git -C /repo checkout -- .' EXIT
for c in "$@"; do
  out=$(VERIF_SEED=${VERIF_SEED:-0} timeout 1500 ./check "$c" --tier ${TIER:-quick} 2>&1 | grep -E "VIOLATION|^OK|KNOWN-FINDING|INFRA" | head -3 | tr '\n' ' ')
  echo "$c: $out"
done
